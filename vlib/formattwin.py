"""FormatTwin: an ambient monitor on the matrix-valued methods of ``cardillo.System``.

Every System method with a ``format=`` keyword (M, h_q, W_g, Wla_N_q, ...) is wrapped (from the outside, nothing in the
repository is edited): when the workload calls it, the wrapper lets the call through and, for every ``sample_every``-th
call, asks the same system for the same quantity in the OTHER documented formats ("coo", "csr", "csc", "array") at the same
arguments and compares all of them entry by entry as dense arrays. The four formats are four conversions of one
accumulation of (row, col, value) triplets, so they must agree up to summation-order rounding (scaled by the sum of the
absolute summands, which the wrapper takes from the "coo" triplets).

The workload is whatever the property module drives (contact systems of C06, force elements of C08, random compositions
of C14 ...); mismatches are collected in STATE and turned into violations of the running case by the runner.
"""
import inspect
import numpy as np

FORMATS = ("coo", "csr", "csc", "array")
STATE = {"installed": False, "calls": 0, "compared": 0, "mismatch": [], "sample_every": 3, "busy": False, "methods": []}


def _dense(A):
    if hasattr(A, "toarray"):
        return np.asarray(A.toarray())
    return np.asarray(A)


def install(sample_every=3):
    STATE["sample_every"] = int(sample_every)
    if STATE["installed"]:
        return
    from cardillo.system import System
    for name, fn in list(vars(System).items()):
        if not callable(fn) or name.startswith("_"):
            continue
        try:
            sig = inspect.signature(fn)
        except (TypeError, ValueError):
            continue
        if "format" not in sig.parameters:
            continue
        setattr(System, name, _wrap(name, fn))
        STATE["methods"].append(name)
    STATE["installed"] = True


def _wrap(name, fn):
    def twin(self, *args, **kwargs):
        res = fn(self, *args, **kwargs)
        if STATE["busy"]:
            return res
        STATE["calls"] += 1
        if STATE["calls"] % STATE["sample_every"]:
            return res
        STATE["busy"] = True
        try:
            kw = {k: v for k, v in kwargs.items() if k != "format"}
            base = _dense(res).astype(float)
            # magnitude of the summands per cell (for the rounding allowance): from the triplets of the coo form
            try:
                C = fn(self, *args, format="coo", **kw)
                mass = np.zeros(base.shape)
                np.add.at(mass, (np.asarray(C.row), np.asarray(C.col)), np.abs(np.asarray(C.data, dtype=float)))
            except Exception:
                mass = np.abs(base)
            tol = 64 * np.finfo(float).eps * mass + 1e-300
            for fmt in FORMATS:
                if fmt == kwargs.get("format", "coo"):
                    continue
                try:
                    alt = _dense(fn(self, *args, format=fmt, **kw)).astype(float)
                except Exception as e:
                    STATE["mismatch"].append({"method": name, "format": fmt, "difference": f"raises {type(e).__name__}: {e}"[:200]})
                    continue
                STATE["compared"] += 1
                if alt.shape != base.shape:
                    bad = f"shape {alt.shape} instead of {base.shape}"
                elif not np.array_equal(np.isfinite(alt), np.isfinite(base)):
                    bad = "non-finite pattern differs"
                else:
                    fin = np.isfinite(base)
                    d = np.abs(np.where(fin, alt - base, 0.0))
                    bad = None if np.all(d <= tol) else f"max abs difference {float(d.max()):.3e} (allowed there {float(tol.flat[int(np.argmax(d - tol))]):.3e})"
                if bad and len(STATE["mismatch"]) < 8:
                    STATE["mismatch"].append({"method": name, "format": fmt, "reference_format": kwargs.get("format", "coo"), "difference": bad,
                                              "shape": list(base.shape), "nu": int(getattr(self, "nu", -1)),
                                              "contributions": [c.__class__.__name__ for c in getattr(self, "contributions", [])][:16]})
        finally:
            STATE["busy"] = False
        return res

    twin.__name__ = name
    twin.__wrapped__ = fn
    return twin


def drain(ctx):
    """called by the runner after every case of a module that opted in"""
    ctx.count("formattwin_calls", STATE["calls"]); ctx.count("formattwin_comparisons", STATE["compared"])
    if STATE["compared"]:
        ctx.mon("FORMAT:twin", STATE["compared"])
    for m in STATE["mismatch"]:
        ctx.violation(f"System.{m['method']}", "the same system quantity requested in another documented format differs", m)
    STATE["mismatch"].clear(); STATE["calls"] = 0; STATE["compared"] = 0
