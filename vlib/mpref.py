"""50-digit reference models of the SO(3)/SE(3) maps (mpmath), written from the
definitions, independent of cardillo.math. Each model is validated against group
axioms by `selfcheck()` so that an error in the model shows up as a failing
self-check (harness error), not as an alarm about cardillo."""

import mpmath as mp

mp.mp.dps = 50


def mat(rows):
    return mp.matrix(rows)


def skew(a):
    return mp.matrix([[0, -a[2], a[1]], [a[2], 0, -a[0]], [-a[1], a[0], 0]])


def axial(S):
    return [(S[2, 1] - S[1, 2]) / 2, (S[0, 2] - S[2, 0]) / 2, (S[1, 0] - S[0, 1]) / 2]


def norm(v):
    return mp.sqrt(sum(x * x for x in v))


def exp_so3(psi):
    """Rodrigues; series for tiny angles (exact to 50 digits)"""
    psi = [mp.mpf(x) for x in psi]
    a2 = sum(x * x for x in psi)
    a = mp.sqrt(a2)
    K = skew(psi)
    if a < mp.mpf("1e-12"):
        s = 1 - a2 / 6 + a2 * a2 / 120
        c = mp.mpf(1) / 2 - a2 / 24 + a2 * a2 / 720
    else:
        s = mp.sin(a) / a
        c = (1 - mp.cos(a)) / a2
    return mp.eye(3) + s * K + c * (K * K)


def quat_to_mat(P):
    P = [mp.mpf(x) for x in P]
    n2 = sum(x * x for x in P)
    w, x, y, z = P
    R = mp.matrix([
        [w * w + x * x - y * y - z * z, 2 * (x * y - w * z), 2 * (x * z + w * y)],
        [2 * (x * y + w * z), w * w - x * x + y * y - z * z, 2 * (y * z - w * x)],
        [2 * (x * z - w * y), 2 * (y * z + w * x), w * w - x * x - y * y + z * z],
    ])
    return R / n2


def mat_to_quat(A):
    """unit quaternion of a (nearly) orthogonal matrix, largest-component branch"""
    t = A[0, 0] + A[1, 1] + A[2, 2]
    cand = [t, A[0, 0], A[1, 1], A[2, 2]]
    i = max(range(4), key=lambda k: cand[k])
    if i == 0:
        w = mp.sqrt(1 + t) / 2
        q = [w, (A[2, 1] - A[1, 2]) / (4 * w), (A[0, 2] - A[2, 0]) / (4 * w), (A[1, 0] - A[0, 1]) / (4 * w)]
    else:
        i -= 1
        j, k = (i + 1) % 3, (i + 2) % 3
        qi = mp.sqrt(A[i, i] / 2 + (1 - t) / 4)
        q = [0, 0, 0, 0]
        q[i + 1] = qi
        q[0] = (A[k, j] - A[j, k]) / (4 * qi)
        q[j + 1] = (A[j, i] + A[i, j]) / (4 * qi)
        q[k + 1] = (A[k, i] + A[i, k]) / (4 * qi)
    n = norm(q)
    return [x / n for x in q]


def log_so3(A):
    """rotation vector with |psi| <= pi, via the quaternion (accurate at half turns)"""
    q = mat_to_quat(A)
    w, v = q[0], q[1:]
    nv = norm(v)
    if nv == 0:
        return [mp.mpf(0)] * 3
    if w < 0:
        w, v = -w, [-x for x in v]
    ang = 2 * mp.atan2(nv, w)
    return [ang * x / nv for x in v]


def dexp_dir(psi, dpsi):
    """directional derivative of exp_so3 at psi in direction dpsi (mp.diff)"""
    f = lambda s: exp_so3([psi[i] + s * dpsi[i] for i in range(3)])
    return mdiff(f, 0)


def mdiff(f, s0, h=None):
    """derivative of a matrix/list valued function of a scalar, entrywise, by
    high-order central differences in 50-digit arithmetic (error ~ h^8)"""
    h = mp.mpf("1e-5") if h is None else mp.mpf(h)
    c = [mp.mpf(4) / 5, -mp.mpf(1) / 5, mp.mpf(4) / 105, -mp.mpf(1) / 280]
    acc = None
    for k, ck in enumerate(c, start=1):
        fp, fm = f(s0 + k * h), f(s0 - k * h)
        d = _sub(fp, fm)
        d = _scale(d, ck / h)
        acc = d if acc is None else _add(acc, d)
    return acc


def _sub(a, b):
    if isinstance(a, mp.matrix):
        return a - b
    return [x - y for x, y in zip(a, b)]


def _add(a, b):
    if isinstance(a, mp.matrix):
        return a + b
    return [x + y for x, y in zip(a, b)]


def _scale(a, c):
    if isinstance(a, mp.matrix):
        return a * c
    return [x * c for x in a]


def T_so3(psi):
    """tangent map from the definition: column k = axial(A^T dA/dpsi_k)"""
    A = exp_so3(psi)
    T = mp.zeros(3, 3)
    for k in range(3):
        e = [mp.mpf(0)] * 3
        e[k] = mp.mpf(1)
        dA = dexp_dir(psi, e)
        w = axial(A.T * dA)
        for i in range(3):
            T[i, k] = w[i]
    return T


def T_so3_closed(psi):
    """closed form (used where speed matters; validated against T_so3 in selfcheck)"""
    psi = [mp.mpf(x) for x in psi]
    a2 = sum(x * x for x in psi)
    a = mp.sqrt(a2)
    K = skew(psi)
    if a < mp.mpf("1e-12"):
        b = mp.mpf(1) / 2 - a2 / 24
        c = mp.mpf(1) / 6 - a2 / 120
    else:
        b = (1 - mp.cos(a)) / a2
        c = (a - mp.sin(a)) / (a2 * a)
    return mp.eye(3) - b * K + c * (K * K)


def T_so3_inv(psi):
    return T_so3_closed(psi) ** -1


def exp_se3(h):
    """H = [[Exp(psi), T(psi)^T r],[0,1]]"""
    r, psi = h[:3], h[3:]
    A = exp_so3(psi)
    t = T_so3_closed(psi).T * mp.matrix([mp.mpf(x) for x in r])
    H = mp.eye(4)
    for i in range(3):
        for j in range(3):
            H[i, j] = A[i, j]
        H[i, 3] = t[i]
    return H


def exp_se3_series(h, terms=60):
    """matrix exponential of the twist by its power series (independent check of exp_se3)"""
    r, psi = [mp.mpf(x) for x in h[:3]], [mp.mpf(x) for x in h[3:]]
    X = mp.zeros(4, 4)
    K = skew(psi)
    for i in range(3):
        for j in range(3):
            X[i, j] = K[i, j]
        X[i, 3] = r[i]
    term = mp.eye(4)
    S = mp.eye(4)
    for n in range(1, terms):
        term = term * X / n
        S = S + term
    return S


def tolist(M):
    if isinstance(M, mp.matrix):
        return [[float(M[i, j]) for j in range(M.cols)] for i in range(M.rows)]
    return [float(x) for x in M]


_checked = False


def selfcheck():
    global _checked
    if _checked:
        return
    psi = [mp.mpf("0.3"), mp.mpf("-1.1"), mp.mpf("0.7")]
    A = exp_so3(psi)
    assert mp.norm(A.T * A - mp.eye(3)) < mp.mpf("1e-45")
    assert abs(mp.det(A) - 1) < mp.mpf("1e-45")
    # homomorphism on a common axis
    B = exp_so3([2 * x for x in psi])
    assert mp.norm(A * A - B) < mp.mpf("1e-45")
    # log inverts exp
    l = log_so3(A)
    assert max(abs(l[i] - psi[i]) for i in range(3)) < mp.mpf("1e-40")
    # quaternion model agrees with Rodrigues
    a = norm(psi)
    q = [mp.cos(a / 2)] + [mp.sin(a / 2) * x / a for x in psi]
    assert mp.norm(quat_to_mat(q) - A) < mp.mpf("1e-45")
    assert max(abs(x - y) for x, y in zip(mat_to_quat(A), q)) < mp.mpf("1e-40")
    # closed-form tangent map equals the definition
    assert mp.norm(T_so3(psi) - T_so3_closed(psi)) < mp.mpf("1e-25")
    tiny = [mp.mpf("1e-9"), mp.mpf("-2e-9"), mp.mpf("5e-10")]
    assert mp.norm(T_so3(tiny) - T_so3_closed(tiny)) < mp.mpf("1e-25")
    # SE(3): closed form equals the matrix exponential series
    h = [mp.mpf("0.5"), mp.mpf("-2"), mp.mpf("1.5")] + psi
    assert mp.norm(exp_se3(h) - exp_se3_series(h)) < mp.mpf("1e-40")
    # half turn log
    n = [mp.mpf(1) / 3, mp.mpf(2) / 3, mp.mpf(2) / 3]
    Ah = exp_so3([mp.pi * x for x in n])
    lh = log_so3(Ah)
    assert abs(norm(lh) - mp.pi) < mp.mpf("1e-40")
    _checked = True
