"""C14 / finding 2: after a remove/add sequence an actuator is assembled with the STALE degrees of
freedom of its joint (assembler callbacks are executed in list order, the actuator reads
joint.qDOF/uDOF before the joint has recomputed them).

Run:  cd /tmp/seed4/C14 && PYTHONPATH=/tmp/seed4/C14 /venv/bin/python /tmp/seed5/out/C14/2/demo.py
"""
import sys, io, contextlib
import numpy as np
import cardillo

print("cardillo.__file__ =", cardillo.__file__)

from cardillo import System
from cardillo.discrete import RigidBody
from cardillo.constraints import Revolute
from cardillo.actuators import Motor


def parts():
    system = System()
    A = RigidBody(1.0, np.eye(3), q0=np.array([0, 0, 0, 1, 0, 0, 0.0]), name="A")  # free body
    B = RigidBody(1.0, np.eye(3), q0=np.array([2, 0, 0, 1, 0, 0, 0.0]), name="B")  # driven body
    joint = Revolute(system.origin, B, axis=2, name="joint")
    motor = Motor(joint, 5.0)
    motor.name = "motor"
    return system, A, B, joint, motor


def quiet(f, *args, **kwargs):
    with contextlib.redirect_stdout(io.StringIO()):
        return f(*args, **kwargs)


def report(system, A, B, joint, motor):
    W_tau = system.W_tau(system.t0, system.q0, format="array")
    rows = np.nonzero(W_tau)[0]
    print("  order of contributions :", [c.name for c in system.contributions])
    print("  A.uDOF      =", A.uDOF.tolist())
    print("  B.uDOF      =", B.uDOF.tolist())
    print("  joint.uDOF  =", joint.uDOF.tolist())
    print("  motor.uDOF  =", motor.uDOF.tolist())
    print("  rows of W_tau with entries =", rows.tolist())
    print("  u_dot0[A] =", system.u_dot0[A.uDOF], " u_dot0[B] =", system.u_dot0[B.uDOF])
    return rows


# reference: the same contributions, assembled once
ref, A0, B0, j0, m0 = parts()
ref.add(A0, B0, j0, m0)
quiet(ref.assemble)
print("reference system (assembled once)")
report(ref, A0, B0, j0, m0)

# same contributions, history: exchange the joint and the free body, re-assemble
system, A, B, joint, motor = parts()
system.add(A, B, joint, motor)
quiet(system.assemble)
system.remove(joint)
system.add(joint)  # joint now sits behind the motor in system.contributions
system.remove(A)
system.add(A)  # A now sits behind B -> the coordinates of A and B swap
quiet(system.assemble)
print("\nsystem after remove(joint); add(joint); remove(A); add(A); assemble()")
rows = report(system, A, B, joint, motor)

failures = 0
if not np.array_equal(motor.uDOF, joint.uDOF) or not np.array_equal(motor.qDOF, joint.qDOF):
    failures += 1
    print("-> motor is scattered to DOFs that are not the DOFs of its joint")
if not set(rows.tolist()) <= set(B.uDOF.tolist()):
    failures += 1
    print("-> W_tau places the motor torque on rows", rows.tolist(), "which belong to the free body A")
err_A = np.max(np.abs(system.u_dot0[A.uDOF] - ref.u_dot0[A0.uDOF]))
err_B = np.max(np.abs(system.u_dot0[B.uDOF] - ref.u_dot0[B0.uDOF]))
print(f"max |u_dot0 - reference|: body A {err_A:.3g}, body B {err_B:.3g}")
if max(err_A, err_B) > 1e-10:
    failures += 1

# informational: the same dependency on the order makes a first assembly fail
s2, A2, B2, j2, m2 = parts()
s2.add(A2, B2, m2, j2)
try:
    quiet(s2.assemble)
    print("\n(info) add(A, B, motor, joint); assemble(): ok")
except Exception as e:
    print("\n(info) add(A, B, motor, joint); assemble() raises", repr(e))

print("\nfailures:", failures)
sys.exit(1 if failures else 0)
