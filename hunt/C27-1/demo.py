"""Sphere.prox is not the projection onto the ball once |x|^2 leaves the double range.

np.linalg.norm(x) is evaluated as sqrt(x.x) without scaling:
  * |x| >~ 1.34e154  -> x.x overflows, norm_x = inf, radius * x / inf = 0:
    the map returns the CENTRE of the ball instead of the boundary point
    radius * x / |x| (error = radius, i.e. 100 % of the result);
  * |x| <~ 1e-162    -> x.x underflows to 0, norm_x = 0 <= radius is true for
    every radius (also the degenerate ball {0} for z <= 0), x is returned
    unchanged although it is outside the ball.
All inputs are finite doubles; the exact projection is representable.
"""
import sys
import numpy as np
import cardillo
from cardillo.math.prox import Sphere

print("cardillo from", cardillo.__file__)


def reference(x, r, z):
    """Projection with a scaled (overflow/underflow safe) norm."""
    x = np.asarray(x, dtype=float)
    radius = max(0.0, r * z)
    s = np.max(np.abs(x))
    if s == 0.0:
        return x.copy()
    n = s * np.sqrt(np.sum((x / s) ** 2))
    if n <= radius:
        return x.copy()
    return radius * ((x / s) / np.sqrt(np.sum((x / s) ** 2)))


cases = [
    # (x, mu, z, comment)
    (np.array([3.0, 4.0]) * 1e150, 0.5, 2.0, "large, still fine"),
    (np.array([3.0, 4.0]) * 1e154, 0.5, 2.0, "large: x.x overflows"),
    (np.array([1.0, 2.0, 2.0]) * 1e200, 0.3, 10.0, "large 3d"),
    (np.array([-2e160]), 1.0, 5.0, "large 1d"),
    (np.array([3.0, 4.0]) * 1e-170, 0.5, -1.0, "tiny x, degenerate ball (z<0): must be 0"),
    (np.array([3.0, 4.0]) * 1e-170, 0.5, 1e-170, "tiny x outside tiny ball"),
    (np.array([3.0, 4.0]) * 1e-170, 0.0, 1.0, "tiny x, mu = 0: must be 0"),
]

failures = 0
for x, mu, z, comment in cases:
    S = Sphere(mu)
    with np.errstate(all="ignore"):
        p = np.array(S.prox(x.copy(), z), dtype=float)
    ref = reference(x, mu, z)
    radius = max(0.0, mu * z)
    # error relative to the natural size of the answer (radius), or to |x| for the degenerate ball
    scale = min(radius, np.max(np.abs(x))) if radius > 0 else np.max(np.abs(x))
    err = np.max(np.abs(p - ref)) / scale
    feasible = np.max(np.abs(p)) <= radius * (1 + 1e-12)  # necessary for |p| <= radius
    ok = err < 1e-12 and feasible
    print(f"{comment:48s} x={x} mu={mu} z={z}\n    prox={p}\n    ref ={ref}  rel.err={err:.3g} feasible={feasible} -> {'ok' if ok else 'VIOLATION'}")
    failures += not ok

print("violations:", failures)
sys.exit(1 if failures else 0)
