"""C17 finding 3: with a time-dependent partner whose derivatives are left to
the package (Frame(r_OP=callable) - r_OP_t / r_OP_tt are optional arguments), the
accelerations reported by ScipyIVP violate the acceleration-level constraint by
1e-4 ... 1e-3 (requested rtol=1e-8), growing linearly with the distance of the
frame from the origin, because the frame acceleration is a second difference
with step eps=1e-6 (round-off amplified by 4*2.2e-16/1e-12 ~ 1e-3 * |r_OP|).

System: point mass pendulum (FixedDistance, length 1, released 53 deg from the
vertical with zero relative velocity) on a frame that
oscillates horizontally, r_OP(t) = (R0 + 0.3 sin 2t, 0, 0).
Independent oracle (closed form, no package code):
    g(t,q)   = |q - r(t)|^2 - 1
    g_ddot   = 2 |u - r'(t)|^2 + 2 (q - r(t)) . (u_dot - r''(t))

Run as:  cd /tmp/seed4/C17 && PYTHONPATH=/tmp/seed4/C17 /venv/bin/python demo.py
"""
import sys, io, contextlib, warnings, time
import numpy as np

import cardillo
from cardillo import System
from cardillo.discrete import PointMass, Frame
from cardillo.constraints import FixedDistance
from cardillo.forces import Force
from cardillo.solver import ScipyIVP

print("cardillo imported from", cardillo.__file__)
warnings.filterwarnings("ignore")


def motion(R0):
    r = lambda t: np.array([R0 + 0.3 * np.sin(2 * t), 0.0, 0.0])
    r_t = lambda t: np.array([0.6 * np.cos(2 * t), 0.0, 0.0])
    r_tt = lambda t: np.array([-1.2 * np.sin(2 * t), 0.0, 0.0])
    return r, r_t, r_tt


def run(R0, supply_derivatives, t1=0.5, dt=0.005):
    r, r_t, r_tt = motion(R0)
    frame = Frame(r_OP=r, r_OP_t=r_t, r_OP_tt=r_tt) if supply_derivatives else Frame(r_OP=r)
    pm = PointMass(1.0, q0=np.array([R0 + 0.8, 0.0, -0.6]), u0=np.array([0.6, 0.0, 0.0]))
    system = System()
    system.add(frame, pm, FixedDistance(frame, pm), Force(np.array([0, 0, -9.81]), pm))
    t_ = time.time()
    with contextlib.redirect_stdout(io.StringIO()), contextlib.redirect_stderr(io.StringIO()):
        system.assemble()
        sol = ScipyIVP(system, t1, dt).solve()  # defaults: RK45, rtol=1e-8, atol=1e-10
    el = time.time() - t_
    res = []
    for t, q, u, ud in zip(sol.t, sol.q, sol.u, sol.u_dot):
        d = q - r(t)
        res.append(abs(2 * (u - r_t(t)) @ (u - r_t(t)) + 2 * d @ (ud - r_tt(t))))
    g = max(abs((q - r(t)) @ (q - r(t)) - 1.0) for t, q in zip(sol.t, sol.q))
    return max(res), g, el, len(sol.t)


# direct look at the frame acceleration that enters zeta_g
for R0 in (1.0, 10.0, 1000.0):
    r, r_t, r_tt = motion(R0)
    fr = Frame(r_OP=r)
    err = max(np.abs(fr.a_P(t) - r_tt(t)).max() for t in np.linspace(0, 1, 200))
    print(f"R0={R0:7g}: max |Frame.a_P - exact| over 200 times = {err:.2e}   (|r''| <= 1.2)")

bad = False
print()
for R0, t1 in ((0.0, 0.5), (10.0, 0.3)):
    for supply in (True, False):
        res, g, el, n = run(R0, supply, t1=t1)
        print(f"R0={R0:4g}, derivatives {'supplied ' if supply else 'from pkg '}: "
              f"max |g_ddot(t, q, u, u_dot_reported)| = {res:.2e}   max|g| = {g:.1e}   ({n} output times, {el:.1f}s)")
        # rtol = 1e-8, atol = 1e-10 were requested; u_dot is an algebraic function
        # of (t, q, u): anything above 1e-6 is not tolerance related
        if res > 1e-6:
            bad = True
if bad:
    print("\nFAIL: reported accelerations violate the acceleration-level constraint")
    sys.exit(1)
print("\nOK")
