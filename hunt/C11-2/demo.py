"""C11 / finding 2 (degenerate, low severity): the "Quaternion" interpolation does not
always produce a rotation - when the Lagrange-interpolated (non-unit) quaternion
sum_i N_i(xi) p_i vanishes, A_IB is a NaN matrix and every rod quantity evaluated
there (h, h_q, c, W_c, g, r_OP with offset, J_P, ...) silently becomes NaN.

Nonzero nodal quaternions p and -p describe the SAME cross-section orientation, so
the states below are legitimate descriptions of an undeformed straight rod.

Run:  cd /tmp/seed4/C11 && PYTHONPATH=/tmp/seed4/C11 /venv/bin/python /tmp/seed5/out/C11/2/demo.py
"""

import sys
import warnings
import numpy as np

warnings.filterwarnings("ignore")
np.seterr(all="ignore")

import cardillo

print("cardillo.__file__ =", cardillo.__file__)
assert cardillo.__file__.startswith("/tmp/seed4/C11"), "wrong cardillo imported"

from cardillo import System
from cardillo.solver import SolverOptions
from cardillo.rods import Simo1986, CircularCrossSection
from cardillo.rods.cosseratRod import make_CosseratRod
from cardillo.math import Exp_SO3_quat


def is_rotation(A, tol=1e-10):
    return bool(
        np.all(np.isfinite(A))
        and np.max(np.abs(A.T @ A - np.eye(3))) < tol
        and abs(np.linalg.det(A) - 1.0) < tol
    )


cs = CircularCrossSection(0.1)
mat = Simo1986(np.array([5.0, 1.0, 2.0]), np.array([0.5, 2.0, 3.0]))
failures = []

# a generic (random) unit quaternion
rng = np.random.default_rng(0)
P = rng.standard_normal(4)
P /= np.linalg.norm(P)

# a half turn about e_y^I (for this one the cancellation at the Gauss points of the
# quadratic element is exact in floating point arithmetic)
P_y = np.array([0.0, 0.0, 1.0, 0.0])

for p, mixed, P, nodal_factors, label in [
    (1, False, P, [1.0, -1.0, 1.0], "p=1, displacement based, nodes (P, -P, P), P random unit quaternion"),
    (1, True, P, [1.0, -1.0, 1.0], "p=1, mixed,              nodes (P, -P, P), P random unit quaternion"),
    (2, True, P_y, [2.0, -1.0, 2.0], "p=2 (default), mixed,    nodes (2P, -P, 2P), P = (0,0,1,0)"),
]:
    nel = 2 if p == 1 else 1
    Rod = make_CosseratRod(interpolation="Quaternion", mixed=mixed, polynomial_degree=p)
    Q = Rod.straight_configuration(nel, 1.0)
    rod = Rod(cs, mat, nel, Q=Q, q0=Q.copy())
    system = System()
    system.add(rod)
    system.assemble(options=SolverOptions(compute_consistent_initial_conditions=False))

    q = Q.copy()
    for node, fac in enumerate(nodal_factors):
        q[rod.nodalDOF_p[node]] = fac * P
    u = np.zeros(rod.nu)

    # every nodal quaternion is nonzero and represents the same rotation Exp_SO3_quat(P)
    A_nodes = [Exp_SO3_quat(q[rod.nodalDOF_p[n]]) for n in range(rod.nnodes_p)]
    assert all(np.allclose(A, A_nodes[0], atol=1e-14) for A in A_nodes)

    print("\n" + label)
    for el in range(rod.nelement):
        for i in range(rod.nquadrature):
            xi = rod.qp[el, i]
            qe = q[rod.local_qDOF_P(xi)]
            A = rod.A_IB(0.0, qe, xi)
            ok = is_rotation(A)
            print(f"  xi = {xi:.6f} (quadrature point): A_IB is a rotation: {ok}")
            if not ok:
                print("   A_IB =", A.tolist())
                failures.append((label, xi))
    if mixed:
        la_c = np.zeros(rod.nla_c)
        c = rod.c(0.0, q, u, la_c)
        print("  c(q, la_c=0) finite:", bool(np.all(np.isfinite(c))), " W_c finite:", bool(np.all(np.isfinite(rod.W_c(0.0, q).toarray()))))
    else:
        h = rod.h(0.0, q, u)
        print("  h(q, 0) finite:", bool(np.all(np.isfinite(h))), " h_q finite:", bool(np.all(np.isfinite(rod.h_q(0.0, q, u).toarray()))))

print()
if failures:
    print(
        "FAIL: the Quaternion interpolation returned a non-rotation (NaN) A_IB at %d "
        "evaluation points for nonzero nodal quaternions." % len(failures)
    )
    sys.exit(1)
print("OK: A_IB is a rotation at all evaluation points")
sys.exit(0)
