"""C09 finding 2: default l_ref is evaluated at the *un-normalised* subsystem.q0,
but the system starts from the normalised q0 -> a spring attached to an interior
point of a quaternion-interpolated Cosserat rod is pre-stressed at system.q0.

Run:  cd /tmp/seed4/C09 && PYTHONPATH=/tmp/seed4/C09 /venv/bin/python /tmp/seed5/out/C09/2/demo.py
Exit code 0 <=> the force law exerts no force / stores no energy in the initial
configuration the system actually starts from (system.t0, system.q0).
"""
import sys
import numpy as np
import cardillo

print("cardillo.__file__ =", cardillo.__file__)

from cardillo import System
from cardillo.discrete import RigidBody
from cardillo.interactions import TwoPointInteraction
from cardillo.force_laws import Spring, KelvinVoigtElement, MaxwellElement
from cardillo.rods import RectangularCrossSection, Simo1986
from cardillo.rods.cosseratRod import make_CosseratRod
from cardillo.math import Exp_SO3_quat

Rod = make_CosseratRod(interpolation="Quaternion", mixed=False)
nelement = 2
R = 1.0  # quarter circle of radius R in the x-y plane
nnodes = 2 * nelement + 1
phis = np.linspace(0.0, np.pi / 2, nnodes)
k = 100.0


def rod_q0(kind):
    """Nodal positions on a quarter circle, nodal bases rotated by phi about e_z.

    kind == "unit"     : p = (cos(phi/2), 0, 0, sin(phi/2))
    kind == "non-unit" : p = (1, 0, 0, tan(phi/2))   (same rotation, |p| = 1/cos(phi/2))
    """
    r = np.array([R * np.sin(phis), R * (1 - np.cos(phis)), 0 * phis])
    if kind == "unit":
        p = np.array([np.cos(phis / 2), 0 * phis, 0 * phis, np.sin(phis / 2)])
    else:
        p = np.array([1 + 0 * phis, 0 * phis, 0 * phis, np.tan(phis / 2)])
    return np.concatenate([r.reshape(-1), p.reshape(-1)])


# both representations describe exactly the same nodal positions and orientations
qa, qb = rod_q0("unit"), rod_q0("non-unit")
for i in range(nnodes):
    pa = qa[3 * nnodes :].reshape(4, nnodes)[:, i]
    pb = qb[3 * nnodes :].reshape(4, nnodes)[:, i]
    assert np.allclose(Exp_SO3_quat(pa), Exp_SO3_quat(pb), atol=1e-14)

laws = {
    "Spring(compliance)": lambda s: Spring(s, k),
    "Spring(h)": lambda s: Spring(s, k, compliance_form=False),
    "KelvinVoigt(h)": lambda s: KelvinVoigtElement(s, k, 1.0, compliance_form=False),
    "Maxwell": lambda s: MaxwellElement(s, k, 1.0),
}

failures = []
for kind in ["unit", "non-unit"]:
    for name, make in laws.items():
        system = System()
        q0 = rod_q0(kind)
        rod = Rod(
            RectangularCrossSection(0.05, 0.05),
            Simo1986(np.array([5.0, 1.0, 1.0]), np.array([0.5, 2.0, 2.0])),
            nelement,
            Q=rod_q0("unit"),
            q0=q0,
        )
        # spring between a point on the cross-section at xi=0.3 (offset 0.5 in
        # e_y^B direction) and the origin
        tpi = TwoPointInteraction(
            rod, system.origin, xi1=0.3, B_r_CP1=np.array([0.0, 0.5, 0.0])
        )
        law = make(tpi)
        system.add(rod, tpi, law)
        system.assemble()  # default options

        t0, qs, us = system.t0, system.q0, system.u0
        F = float(law.force(t0, qs[law.qDOF], us[law.uDOF]))
        E = float(law.E_pot(t0, qs[law.qDOF]))
        l_sys = float(tpi.l(t0, qs[tpi.qDOF]))
        la_c0 = system.la_c0
        print(
            f"{kind:8s} {name:18s} l_ref={law.l_ref:.9f}  l(t0, system.q0)={l_sys:.9f}  "
            f"force={F:+.4e}  E_pot={E:.4e}  la_c0={la_c0}  |system.q0 - rod.q0|max={np.abs(qs[rod.qDOF] - q0).max():.3e}"
        )
        if not (abs(F) < 1e-9 * k and E < 1e-14):
            failures.append((kind, name, F, E))

print()
if failures:
    print("VIOLATED: force law attached without l_ref is not stress-free in the initial configuration of the system:")
    for f in failures:
        print("   ", f)
    sys.exit(1)
print("ok")
sys.exit(0)
