"""C15 finding 3: CooMatrix.asformat documents the formats "csr", "csc", "lil",
"dok", "array" and None, but only coo/csr/csc/array can be produced; "lil" and
"dok" raise ValueError("Format ... is unknown."), None raises a TypeError from
a string concatenation.

Run:  cd /tmp/seed4/C15 && PYTHONPATH=/tmp/seed4/C15 /venv/bin/python /tmp/seed5/out/C15/3/demo.py
"""
import re
import sys
import numpy as np
import cardillo
from cardillo.utility.coo_matrix import CooMatrix

print("cardillo.__file__ =", cardillo.__file__)
doc = CooMatrix.asformat.__doc__
line = next(l for l in doc.splitlines() if "desired matrix format" in l)
print("docstring of asformat:", line.strip())
formats = re.findall(r'"(\w+)"', line)
if re.search(r"or None for no conversion", doc):
    formats.append(None)
print("formats documented as supported:", formats)

rng = np.random.default_rng(3)
coo = CooMatrix((4, 5))
ref = np.zeros((4, 5))
for _ in range(10):
    rows = rng.integers(0, 4, size=2)
    cols = rng.integers(0, 5, size=3)
    block = rng.integers(-3, 4, size=(2, 3)).astype(float)
    coo[rows, cols] = block
    np.add.at(ref, (rows[:, None], cols[None, :]), block)

failures = []
for fmt in formats:
    try:
        A = coo.asformat(fmt)
        dense = A if isinstance(A, np.ndarray) else A.toarray()
        ok = np.array_equal(dense, ref)
        print(f"asformat({fmt!r}) -> {type(A).__name__}, equals dense accumulation: {ok}")
        if not ok:
            failures.append(f"asformat({fmt!r}) returned a wrong matrix")
    except Exception as e:
        print(f"asformat({fmt!r}) raised {type(e).__name__}: {e}")
        failures.append(f"asformat({fmt!r}) raised {type(e).__name__}: {e}")

if failures:
    print("\nVIOLATIONS (documented formats that cannot be produced):")
    for f in failures:
        print("  -", f)
    sys.exit(1)
print("no violation")
sys.exit(0)
