"""C05 finding 1: acceleration-level joint constraint with a prescribed-motion Frame
that is given by r_OP(t) / A_IB(t) only (derivatives left at their documented default
None) is NOT the time derivative of the velocity-level constraint.

Oracle: closed-form kinematics of the prescribed motion (circular translation +
rotation about e_z with constant rate) and the rigid-body acceleration formula.

run:  cd /tmp/seed4/C05 && PYTHONPATH=/tmp/seed4/C05 /venv/bin/python demo.py
"""
import sys, warnings
import numpy as np

warnings.filterwarnings("ignore")
import cardillo

print("cardillo:", cardillo.__file__)
from cardillo import System
from cardillo.discrete import Frame, RigidBody
from cardillo.constraints import Spherical, RigidConnection, Prismatic, FixedDistance
from cardillo.solver import SolverOptions


def cross(a, b):
    return np.cross(a, b)


def Rz(phi):
    c, s = np.cos(phi), np.sin(phi)
    return np.array([[c, -s, 0.0], [s, c, 0.0], [0.0, 0.0, 1.0]])


def run_case(R, om, t, joint_kind):
    c = np.array([0.3, -0.2, 0.1])
    r = lambda t: c + R * np.array([np.cos(om * t), np.sin(om * t), 0.0])
    A = lambda t: Rz(om * t)
    # closed form derivatives (used only by the oracle)
    r_tt = lambda t: -om**2 * R * np.array([np.cos(om * t), np.sin(om * t), 0.0])
    Om = np.array([0.0, 0.0, om])  # constant angular velocity, Psi = 0

    t0 = 0.0
    frame = Frame(r_OP=r, A_IB=A, name="frame")  # derivatives: documented default None
    p = np.array([0.9, 0.1, -0.3, 0.2])
    p /= np.linalg.norm(p)
    q0 = np.concatenate([r(t0) + np.array([0.4, 0.1, -0.2]), p])
    rb = RigidBody(2.0, np.diag([1.0, 2.0, 3.0]), q0=q0, u0=np.zeros(6), name="rb")
    r_OJ0 = r(t0) + np.array([0.2, 0.3, 0.1])
    if joint_kind == "Spherical":
        joint = Spherical(frame, rb, r_OJ0=r_OJ0)
    elif joint_kind == "RigidConnection":
        joint = RigidConnection(frame, rb, r_OJ0=r_OJ0)
    system = System(t0=t0)
    system.add(frame, rb, joint)
    system.assemble(options=SolverOptions(compute_consistent_initial_conditions=False))

    # arbitrary state of the rigid body
    rs = np.random.default_rng(3)
    q = np.concatenate([r(t) + rs.normal(size=3), rs.normal(size=4)])
    u = rs.normal(size=6)
    u_dot = rs.normal(size=6)

    g_ddot = joint.g_ddot(t, q, u, u_dot)

    # ---- closed-form oracle for the translational rows: a_J2 - a_J1
    B1 = A(t0).T @ (r_OJ0 - r(t0))  # joint point, frame-fixed
    A_rb0 = rb.A_IB(t0, q0)
    B2 = A_rb0.T @ (r_OJ0 - q0[:3])  # joint point, body-fixed
    a_J1 = r_tt(t) + cross(Om, cross(Om, A(t) @ B1))
    A_rb = rb.A_IB(t, q)
    a_J2 = u_dot[:3] + A_rb @ (cross(u_dot[3:], B2) + cross(u[3:], cross(u[3:], B2)))
    exact = a_J2 - a_J1
    err = np.max(np.abs(g_ddot[:3] - exact))
    scale = np.max(np.abs(a_J1)) + np.max(np.abs(a_J2))
    return err, scale


fail = False
print(f"{'joint':16s} {'R':>8s} {'omega':>6s} {'t':>8s}   max|g_ddot - exact|   (|a| scale)   rel")
for kind in ["Spherical", "RigidConnection"]:
    for R, om, t in [(1.0, 1.0, 0.5), (1.0, 1.0, 20.0), (100.0, 1.0, 0.5), (100.0, 1.0, 20.0), (100.0, 1.0, 1000.0), (1.0e3, 0.1, 50.0)]:
        err, scale = run_case(R, om, t, kind)
        rel = err / scale
        flag = ""
        # an accurate implementation (analytic, or a properly scaled difference quotient)
        # is far below 1e-5 relative (eps=1e-4 second difference: <= 4e-6 here)
        tol = 1e-4 if R >= 1e3 else 1e-5  # slow motion on a large radius: even a good difference quotient is ~1e-5
        if rel > tol:
            fail = True
            flag = "  <-- VIOLATION"
        print(f"{kind:16s} {R:8.1f} {om:6.2f} {t:8.1f}   {err:.3e}            {scale:.3e}    {rel:.2e}{flag}")

if fail:
    print("\nFAIL: g_ddot of joints attached to a Frame(r_OP=callable, A_IB=callable) deviates from the exact "
          "time derivative of g_dot by far more than rounding (second difference with eps=1e-6 in "
          "cardillo/utility/check_time_derivatives.py).")
    sys.exit(1)
print("OK")
sys.exit(0)
