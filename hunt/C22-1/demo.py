"""approx_fprime uses an absolute step eps=1e-6 regardless of |x|.

Far from the origin the step is comparable to / smaller than the spacing of the
floating point numbers around x, so the finite-difference Jacobians lose all
digits and finally become NaN (dx == 0), even for a *linear* map whose exact
derivative every finite-difference formula reproduces without truncation error.
The complex-step variant at the very same points is exact, scipy's
approx_derivative (which the function says it is modelled on) stays at 1e-8 /
1e-11.
"""
import sys
import warnings
import numpy as np
import cardillo

print("cardillo:", cardillo.__file__)
from cardillo.math.approx_fprime import approx_fprime
from cardillo.math.fsolve import fsolve
from cardillo.solver import SolverOptions
from scipy.sparse import csc_array

warnings.simplefilter("ignore")
np.seterr(all="ignore")

rng = np.random.default_rng(0)
A = rng.standard_normal((3, 3))
lin = lambda y: A @ y

# method's accuracy for a linear map: no truncation error at all, only
# rounding.  Be generous: 1e-6 relative for 2-point, 1e-7 for 3-point.
tol = {"2-point": 1e-6, "3-point": 1e-7, "cs": 1e-12}
fail = False
print("f(x) = A x, exact Jacobian A, rel. max error of approx_fprime(x, f, method)")
for mag in [1.0, 1e3, 1e6, 1e8, 1e9, 1e10, 1e11, 1e12]:
    x = rng.standard_normal(3) * mag
    line = f"|x| ~ {mag:7.0e}: "
    for m in ["2-point", "3-point", "cs"]:
        J = approx_fprime(x, lin, method=m)
        err = np.max(np.abs(J - A)) / np.max(np.abs(A))
        bad = not (err <= tol[m])
        fail |= bad
        line += f"{m}: {err:9.2e}{' (!)' if bad else '    '}  "
    print(line)

# consequence inside Newton's helper: a linear system with its solution far
# from the origin, solved with the documented numerical Jacobian modes
xs = np.array([3.0e11, -2.0e11, 1.0e11])
b = A @ xs
fun = lambda x: A @ x - b
x0 = xs * (1 + 1e-3)
sol = fsolve(fun, x0, lambda x: csc_array(A))
print(f"fsolve exact Jacobian   : success={sol.success} nit={sol.nit} error={sol.error:.2e}")
for m in ["2-point", "3-point", "cs"]:
    s = fsolve(fun, x0, options=SolverOptions(numerical_jacobian_method=m))
    print(f"fsolve numerical {m:8s}: success={s.success} nit={s.nit} error={s.error:.2e}")
    if sol.success and not s.success:
        fail = True

if fail:
    print("FAIL: finite-difference Jacobians do not agree with the exact derivative to the method's accuracy")
    sys.exit(1)
print("OK")
