"""C01 finding 2: the normalising variants Exp_SO3_quat(P) and Exp_SO3_quat_P(P)
cannot be evaluated for a quaternion given with integer components (e.g. the
identity [1, 0, 0, 0] or the half turn [0, 0, 0, 1] as np.array of ints):
ax2skew / ax2skew_squared build their result with dtype=a.dtype, so `matrix`
is an int array and the in-place normalisation `matrix /= P @ P`
(`matrix_P *= P2_inv`) raises numpy's UFuncTypeError.  T_SO3_quat,
T_SO3_inv_quat and quatprod accept the same P.  RigidBody keeps an integer q0
(np.asarray) and therefore fails in A_IB / A_IB_q.

Run:  cd /tmp/seed4/C01 && PYTHONPATH=/tmp/seed4/C01 /venv/bin/python /tmp/seed5/out/C01/2/demo.py
"""
import sys
import numpy as np
import cardillo
from cardillo.math.rotations import (
    Exp_SO3_quat,
    Exp_SO3_quat_P,
    T_SO3_quat,
    T_SO3_inv_quat,
    quatprod,
)

print("cardillo.__file__ =", cardillo.__file__)

fail = False
eye3 = np.eye(3)

quats = {
    "identity [1,0,0,0]": np.array([1, 0, 0, 0]),
    "half turn about z [0,0,0,1]": np.array([0, 0, 0, 1]),
    "non-unit [1,2,-1,3]": np.array([1, 2, -1, 3]),
    "non-unit int32 [2,0,-2,1]": np.array([2, 0, -2, 1], dtype=np.int32),
}

for name, P in quats.items():
    Pf = P.astype(float)
    print(f"\nP = {name}, dtype {P.dtype}")
    # these work and agree with the float evaluation
    T = T_SO3_quat(P)
    Ti = T_SO3_inv_quat(P)
    print("  T_SO3_quat @ T_SO3_inv_quat - I :", np.abs(T @ Ti - eye3).max())
    print("  quatprod(P, P)                  :", quatprod(P, P))

    for f in (Exp_SO3_quat, Exp_SO3_quat_P):
        ref = f(Pf)
        try:
            val = f(P)
            err = np.abs(np.asarray(val, dtype=float) - ref).max()
            print(f"  {f.__name__}(P): max deviation from float evaluation {err:.3e}")
            if not err < 1e-14:
                fail = True
        except Exception as e:
            print(f"  {f.__name__}(P) raised {type(e).__name__}: {e}")
            fail = True

# public entry point: RigidBody stores q0 = np.asarray(q0)
try:
    from cardillo.discrete import RigidBody

    rb = RigidBody(1.0, np.eye(3), q0=np.array([0, 0, 0, 1, 0, 0, 0]))
    print("\nRigidBody(q0=np.array([0,0,0,1,0,0,0])): q0.dtype =", rb.q0.dtype)
    for meth in ("A_IB", "A_IB_q"):
        try:
            val = getattr(rb, meth)(0.0, rb.q0)
            print(f"  RigidBody.{meth}(t0, q0) ok, shape {val.shape}")
        except Exception as e:
            print(f"  RigidBody.{meth}(t0, q0) raised {type(e).__name__}: {e}")
            fail = True
except ImportError as e:  # vtk etc. not available: kernel result above suffices
    print("RigidBody not importable:", e)

if fail:
    print("\nFAIL: the rotation matrix / its derivative do not exist for integer-valued P")
    sys.exit(1)
print("\nOK")
sys.exit(0)
