"""C04 finding 1: the kinetic energy reported by System.E_kin is not 1/2 u^T M u
as soon as the system contains a RigidBody (RigidBody has no E_kin and is
silently skipped in the sum).

Run: cd /tmp/seed4/C04 && PYTHONPATH=/tmp/seed4/C04 /venv/bin/python /tmp/seed5/out/C04/1/demo.py
"""
import contextlib, io, sys
import numpy as np
import cardillo
from cardillo import System
from cardillo.discrete import RigidBody, PointMass

print("cardillo.__file__ =", cardillo.__file__)

fails = []

# ---------------------------------------------------------------
# (a) system = one point mass + one rigid body, both moving
# ---------------------------------------------------------------
m_pm = 2.0
m_rb = 3.0
Theta = np.diag([1.0, 2.0, 3.0])
pm = PointMass(m_pm, q0=np.array([1.0, 0.0, 0.0]), u0=np.array([0.5, -1.0, 2.0]))
rb = RigidBody(
    m_rb,
    Theta,
    q0=np.array([0.0, 1.0, 0.0, 1.0, 0.0, 0.0, 0.0]),
    u0=np.array([1.0, 2.0, -1.0, 0.3, -0.7, 1.1]),
)
system = System()
system.add(pm, rb)
with contextlib.redirect_stdout(io.StringIO()):
    system.assemble()

t0, q0, u0 = system.t0, system.q0, system.u0
M = system.M(t0, q0, format="csr")
E_ref = 0.5 * u0 @ (M @ u0)
E_rep = system.E_kin(t0, q0, u0)
print("(a) point mass + rigid body")
print("    reported System.E_kin     =", repr(E_rep))
print("    reference 1/2 u^T M u     =", repr(E_ref))
print("    point mass share only     =", 0.5 * m_pm * pm.u0 @ pm.u0)
if not np.isclose(E_rep, E_ref, rtol=1e-12, atol=0.0):
    fails.append(f"(a) E_kin = {E_rep} but 1/2 u^T M u = {E_ref}")

# ---------------------------------------------------------------
# (b) system = a single spinning and translating rigid body
# ---------------------------------------------------------------
rb2 = RigidBody(
    m_rb,
    Theta,
    q0=np.array([0.0, 0.0, 0.0, 1.0, 0.0, 0.0, 0.0]),
    u0=np.array([1.0, 0.0, 0.0, 0.0, 5.0, 0.1]),
)
system2 = System()
system2.add(rb2)
with contextlib.redirect_stdout(io.StringIO()):
    system2.assemble()
M2 = system2.M(system2.t0, system2.q0, format="csr")
E_ref2 = 0.5 * system2.u0 @ (M2 @ system2.u0)
E_rep2 = system2.E_kin(system2.t0, system2.q0, system2.u0)
print("(b) single rigid body")
print("    reported System.E_kin     =", repr(E_rep2))
print("    reference 1/2 u^T M u     =", repr(E_ref2))
if not np.isclose(E_rep2, E_ref2, rtol=1e-12, atol=0.0):
    fails.append(f"(b) E_kin = {E_rep2} but 1/2 u^T M u = {E_ref2}")

print("RigidBody has an E_kin method:", hasattr(rb, "E_kin"))

if fails:
    print("\nVIOLATION: reported kinetic energy is not 1/2 u^T M u")
    for f in fails:
        print("  -", f)
    sys.exit(1)
print("\nOK: reported kinetic energy equals 1/2 u^T M u")
sys.exit(0)
