"""C11 / finding 1: the SE(3) rod's analytic Jacobians (_deval -> r_OP_q, A_IB_q,
strain Jacobians -> g_q / c_q / h_q) lose all accuracy when the relative rotation
between the two nodes of an element approaches a half turn.

Run:  cd /tmp/seed4/C11 && PYTHONPATH=/tmp/seed4/C11 /venv/bin/python /tmp/seed5/out/C11/1/demo.py

Oracles (none of them differentiates across the branch cut at angle = pi):
  (A) exact: at the nodal parameter xi = 1 the SE(3) interpolation returns the
      nodal values (r_OP = r_1, A_IB = Exp_SO3_quat(p_1)); hence
      r_OP_q(xi=1) = [0 | I_3 at r_1 | 0]  and
      A_IB_q(xi=1) = Exp_SO3_quat_P(p_1) in the p_1 columns and 0 elsewhere.
  (B) independent extended-precision (np.longdouble) implementation of the relative
      screw Log_SE3(H_0^-1 H_1) via quaternions, differentiated with 4th order
      central differences whose step is 100x smaller than the distance to pi.
      It is compared with g_q of the fully constrained SE3 rod (one element,
      g = -(relative screw - reference), so g_q = -d(relative screw)/dq).
"""

import sys
import warnings
import numpy as np

warnings.filterwarnings("ignore")

import cardillo

print("cardillo.__file__ =", cardillo.__file__)
assert cardillo.__file__.startswith("/tmp/seed4/C11"), "wrong cardillo imported"

from cardillo.rods import Simo1986, CircularCrossSection
from cardillo.rods.cosseratRod import make_CosseratRod
from cardillo.math import Exp_SO3_quat, Exp_SO3_quat_P, axis_angle2quat, quatprod

TOL = 1.0e-6  # generous: a healthy implementation is at the 1e-12 level here

Rod = make_CosseratRod(interpolation="SE3", mixed=False, constraints=[0, 1, 2, 3, 4, 5])
cs = CircularCrossSection(0.1)
mat = Simo1986(np.array([5.0, 1.0, 2.0]), np.array([0.5, 2.0, 3.0]))
Q = Rod.straight_configuration(1, 1.0)
rod = Rod(cs, mat, 1, Q=Q, q0=Q.copy())

LD = np.longdouble
print("longdouble eps =", np.finfo(LD).eps)


def skew(a):
    z = LD(0)
    return np.array([[z, -a[2], a[1]], [a[2], z, -a[0]], [-a[1], a[0], z]], dtype=LD)


def rot(P):
    P = P / np.sqrt(P @ P)
    S = skew(P[1:])
    return np.eye(3, dtype=LD) + 2 * (P[0] * S + S @ S)


def relative_screw(q):
    """Log_SE3(H_0^-1 H_1) of the single element in extended precision."""
    q = np.asarray(q, dtype=LD)
    r0 = q[rod.nodalDOF_r[0]]
    r1 = q[rod.nodalDOF_r[1]]
    p0 = q[rod.nodalDOF_p[0]]
    p1 = q[rod.nodalDOF_p[1]]
    p0 = p0 / np.sqrt(p0 @ p0)
    p1 = p1 / np.sqrt(p1 @ p1)
    # relative unit quaternion conj(p0) * p1
    w = p0[0] * p1[0] + p0[1:] @ p1[1:]
    v = p0[0] * p1[1:] - p1[0] * p0[1:] - np.cross(p0[1:], p1[1:])
    if w < 0:
        w, v = -w, -v
    nv = np.sqrt(v @ v)
    r = rot(p0).T @ (r1 - r0)
    if nv == 0:  # identical nodal orientations (reference configuration)
        return np.concatenate((r, np.zeros(3, dtype=LD)))
    angle = 2 * np.arctan2(nv, w)
    psi = angle * v / nv
    th2 = psi @ psi
    th = np.sqrt(th2)
    gamma = th / 2 / np.tan(th / 2)
    c = (1 - gamma) / th2
    S = skew(psi)
    T_inv = np.eye(3, dtype=LD) + S / 2 + c * (S @ S)
    return np.concatenate((T_inv.T @ r, psi))


def fd_ld(f, x, h):
    x = np.asarray(x, dtype=LD)
    h = LD(h)
    f0 = f(x)
    J = np.zeros((len(f0), len(x)), dtype=LD)
    for i in range(len(x)):
        e = np.zeros_like(x)
        e[i] = h
        d1 = (f(x + e) - f(x - e)) / (2 * h)
        d2 = (f(x + 2 * e) - f(x - 2 * e)) / (4 * h)
        J[:, i] = (4 * d1 - d2) / 3
    return J.astype(float)


def state(delta, rng):
    """random nodal positions, random NON-unit nodal quaternions whose relative
    rotation angle is pi - delta about a random axis"""
    P0 = rng.standard_normal(4)
    P0 /= np.linalg.norm(P0)
    ax = rng.standard_normal(3)
    ax /= np.linalg.norm(ax)
    P1 = quatprod(P0, axis_angle2quat(ax, np.pi - delta))
    q = np.zeros(rod.nq)
    q[: rod.nq_r] = rng.standard_normal(rod.nq_r)
    q[rod.nodalDOF_p[0]] = P0 * rng.uniform(0.5, 2.0)
    q[rod.nodalDOF_p[1]] = P1 * rng.uniform(0.5, 2.0)
    return q


def relerr(a, b):
    return np.max(np.abs(a - b)) / max(1.0, np.max(np.abs(b)))


# sanity of the independent reference far away from the half turn
rng = np.random.default_rng(0)
q = state(1.5, rng)
g_ref = -(relative_screw(q) - relative_screw(rod.Q)).astype(float)
print(
    "sanity (angle = pi - 1.5): |g - g_ref| = %.1e, |g_q - g_q_ref| = %.1e"
    % (
        np.max(np.abs(rod.g(0, q) - g_ref)),
        relerr(rod.g_q(0, q).toarray(), -fd_ld(relative_screw, q, 1e-6)),
    )
)

print()
print("%-10s %-14s %-14s %-14s %-12s" % ("pi-angle", "err r_OP_q(1)", "err A_IB_q(1)", "err g_q", "|g-g_ref|"))
worst = 0.0
for delta in [1e-1, 1e-2, 1e-3, 3e-4, 1e-4, 1e-5, 1e-6]:
    e_r = e_A = e_g = e_val = 0.0
    rng = np.random.default_rng(1)
    for trial in range(5):
        q = state(delta, rng)
        qe = q[rod.elDOF[0]]

        # (A) exact nodal oracle
        J = rod.r_OP_q(0.0, qe, 1.0)
        J_ex = np.zeros((3, rod.nq_element))
        J_ex[:, rod.nodalDOF_element_r[1]] = np.eye(3)
        e_r = max(e_r, relerr(J, J_ex))

        A_q = rod.A_IB_q(0.0, qe, 1.0)
        A_q_ex = np.zeros((3, 3, rod.nq_element))
        A_q_ex[:, :, rod.nodalDOF_element_p[1]] = Exp_SO3_quat_P(
            qe[rod.nodalDOF_element_p[1]], normalize=True
        )
        e_A = max(e_A, relerr(A_q, A_q_ex))
        # (the interpolated values themselves are fine)
        assert np.max(np.abs(rod.r_OP(0.0, qe, 1.0) - q[rod.nodalDOF_r[1]])) < 1e-12
        assert (
            np.max(np.abs(rod.A_IB(0.0, qe, 1.0) - Exp_SO3_quat(q[rod.nodalDOF_p[1]])))
            < 1e-12
        )

        # (B) constraint Jacobian against the extended precision reference
        g_q_ref = -fd_ld(relative_screw, q, delta / 100)
        e_g = max(e_g, relerr(rod.g_q(0.0, q).toarray(), g_q_ref))
        g_ref = -(relative_screw(q) - relative_screw(rod.Q)).astype(float)
        e_val = max(e_val, np.max(np.abs(rod.g(0.0, q) - g_ref)))
    print("%-10.0e %-14.2e %-14.2e %-14.2e %-12.1e" % (delta, e_r, e_A, e_g, e_val))
    worst = max(worst, e_r, e_A, e_g)

print()
if worst > TOL:
    print(
        "FAIL: SE3 rod Jacobians deviate from the true derivatives by up to %.2e "
        "(tolerance %.0e) for relative nodal rotations close to a half turn, "
        "although r_OP, A_IB and g themselves are accurate there." % (worst, TOL)
    )
    sys.exit(1)
print("OK: all SE3 Jacobians agree with the true derivatives")
sys.exit(0)
