"""C24 / finding 2: re-initialising a system re-draws the tangent basis of
Sphere2Sphere contacts, so the friction data (gamma_F, la_F / P_F) of the
restarted run are expressed in another basis than in the uninterrupted run.

run as
  cd /tmp/seed4/C24 && PYTHONPATH=/tmp/seed4/C24 /venv/bin/python /tmp/seed5/out/C24/2/demo.py
"""
import sys, io, contextlib
import numpy as np
import cardillo
from cardillo import System
from cardillo.discrete import RigidBody
from cardillo.forces import Force
from cardillo.contacts import Sphere2Sphere
from cardillo.solver import Moreau, Rattle, SolverOptions

print("cardillo.__file__ =", cardillo.__file__)


def quiet(f):
    buf = io.StringIO()
    with contextlib.redirect_stdout(buf), contextlib.redirect_stderr(buf):
        return f()


def build():
    """two spheres pressed together along e_x, sphere 2 slides over sphere 1"""
    system = System()
    m, r = 1.0, 0.1
    Theta = 2 / 5 * m * r**2 * np.eye(3)
    d = np.array([1.0, 0.02, 0.01])
    d = 2 * r * d / np.linalg.norm(d)  # touching
    b1 = RigidBody(m, Theta, q0=np.array([0, 0, 0, 1, 0, 0, 0.0]), u0=np.zeros(6), name="sphere1")
    b2 = RigidBody(m, Theta, q0=np.hstack([d, [1, 0, 0, 0.0]]), u0=np.array([0, -0.05, 0.12, 0.5, 0, 0]), name="sphere2")
    contact = Sphere2Sphere(b1, b2, r, r, mu=0.3, e_N=0.0, e_F=0.0, name="contact")
    system.add(b1, b2, contact)
    system.add(Force(np.array([3.0, 0, 0]), b1, name="press1"), Force(np.array([-3.0, 0, 0]), b2, name="press2"))
    quiet(system.assemble)
    return system


opts = SolverOptions(fixed_point_atol=1e-12, fixed_point_rtol=1e-12, newton_atol=1e-12, newton_rtol=1e-12, fixed_point_max_iter=100000)
no_cic = SolverOptions(compute_consistent_initial_conditions=False)  # (the restart also runs with the default, see notes)
t1, dt, k = 0.3, 1e-2, 15
bad = 0
for Solver in [Moreau, Rattle]:
    name = Solver.__name__
    sol_ref = quiet(lambda: Solver(build(), t1, dt, options=opts).solve())

    system = build()
    sol1 = quiet(lambda: Solver(system, k * dt, dt, options=opts).solve())
    basis_before = system.contributions_map["contact"].reference_contact_basis.copy()
    copy = system.deepcopy()
    quiet(lambda: copy.set_new_initial_state(sol1.q[-1], sol1.u[-1], t0=sol1.t[-1], options=no_cic))
    basis_after = copy.contributions_map["contact"].reference_contact_basis.copy()
    sol2 = quiet(lambda: Solver(copy, t1, dt, options=opts).solve())

    q = np.vstack([sol1.q, sol2.q[1:]])
    u = np.vstack([sol1.u, sol2.u[1:]])
    P_N = np.vstack([sol1.P_N, sol2.P_N[1:]])
    P_F = np.vstack([sol1.P_F, sol2.P_F[1:]])
    err_q = np.max(np.abs(q - sol_ref.q))
    err_u = np.max(np.abs(u - sol_ref.u))
    err_PN = np.max(np.abs(P_N[k + 1 :] - sol_ref.P_N[k + 1 :]))
    err_PF = np.max(np.abs(P_F[k + 1 :] - sol_ref.P_F[k + 1 :]))
    scale_PF = np.max(np.abs(sol_ref.P_F[k + 1 :]))
    ang = np.degrees(np.arccos(np.clip(basis_before[:, 0] @ basis_after[:, 0], -1, 1)))
    print(f"--- {name}")
    print(f"  trajectory:  max|dq| = {err_q:.1e}, max|du| = {err_u:.1e}, max|dP_N| = {err_PN:.1e}")
    print(f"  contact tangent t1 at the split state: before re-initialisation {np.round(basis_before[:, 0], 4)}, after {np.round(basis_after[:, 0], 4)}  (angle {ang:.1f} deg)")
    i = k + 3
    print(f"  friction percussion P_F at step {i}: uninterrupted {sol_ref.P_F[i]}, restarted {P_F[i]}")
    print(f"  max|dP_F| over the continuation = {err_PF:.2e}  (max|P_F| = {scale_PF:.2e}); norms agree: {np.linalg.norm(sol_ref.P_F[i]):.6e} vs {np.linalg.norm(P_F[i]):.6e}")
    if err_PF > 1e-6 * max(scale_PF, 1e-12) + 1e-9 or ang > 1e-3:
        bad += 1

if bad:
    print("\nFAIL: the contact's tangent directions (meaning of gamma_F / la_F components) change when the system is re-initialised")
    sys.exit(1)
print("OK")
