"""C01 finding 1: Exp_SO3_quat_P (and T_SO3_quat_P) are not the derivative of
Exp_SO3_quat (T_SO3_quat) for long / short quaternions: the inner derivative of
the normalisation is evaluated as  -2 * (1/|P|^2)**2 * P , and (1/|P|^2)**2
underflows to 0 for |P| >~ 1e78 (term silently dropped, finite wrong result, no
warning) and overflows to inf for |P| <~ 1e-77.

Run:  cd /tmp/seed4/C01 && PYTHONPATH=/tmp/seed4/C01 /venv/bin/python /tmp/seed5/out/C01/1/demo.py
"""
import sys
import numpy as np
import cardillo
from cardillo.math.rotations import (
    Exp_SO3_quat,
    Exp_SO3_quat_P,
    T_SO3_quat,
    T_SO3_quat_P,
)

print("cardillo.__file__ =", cardillo.__file__)
np.seterr(all="ignore")

P0 = np.array([0.3, -0.5, 0.7, 0.2])


def fd(f, P):
    """central finite difference with a step relative to |P|"""
    f0 = f(P)
    out = np.zeros(f0.shape + (4,))
    h = 1e-6 * np.sqrt(np.sum((P / np.abs(P).max()) ** 2)) * np.abs(P).max()
    for k in range(4):
        e = np.zeros(4)
        e[k] = h
        out[..., k] = (f(P + e) - f(P - e)) / (2 * h)
    return out


tol = 1e-6
fail = False
print(
    "%8s | %-22s %-22s | %-22s %-22s"
    % ("|P|~", "A_P vs FD (rel)", "A_P vs A_P(P0)/s (rel)", "T_P vs FD (rel)", "T_P vs T_P(P0)/s^2")
)
A_P0 = Exp_SO3_quat_P(P0)
T_P0 = T_SO3_quat_P(P0)
for k in [-300, -260, 0, 40, 200, 256, 262, 266, 270, 300, 400]:
    s = 2.0**k  # exact scaling, P = s * P0 without rounding
    P = s * P0
    # Exp_SO3_quat / T_SO3_quat themselves are fine at these lengths (|P|^2 is
    # representable), so the finite difference is a valid oracle
    A_P = Exp_SO3_quat_P(P)
    A_P_fd = fd(Exp_SO3_quat, P)
    T_P = T_SO3_quat_P(P)
    T_P_fd = fd(T_SO3_quat, P)
    # A(sP) = A(P)  =>  A_P(sP) = A_P(P) / s ;  T(sP) = T(P)/s => T_P(sP) = T_P(P)/s^2
    errs = [
        np.abs(A_P - A_P_fd).max() / np.abs(A_P_fd).max(),
        np.abs(A_P * s - A_P0).max() / np.abs(A_P0).max(),
        np.abs(T_P - T_P_fd).max() / np.abs(T_P_fd).max(),
        np.abs(T_P * s * s - T_P0).max() / np.abs(T_P0).max(),
    ]
    bad = [not (np.isfinite(e) and e < tol) for e in errs]
    print(
        "%8.1e | %-22.3e %-22.3e | %-22.3e %-22.3e %s"
        % (s * np.linalg.norm(P0), *errs, ("<-- A_P VIOLATION" if (bad[0] or bad[1]) else "") + (" [T_P wrong too]" if (bad[2] or bad[3]) else ""))
    )
    # only the rotation-matrix derivative is named in the property; the tangent
    # map derivative shares the mechanism and is printed for information
    if bad[0] or bad[1]:
        fail = True

if fail:
    print(
        "\nFAIL: Exp_SO3_quat_P is not the derivative of Exp_SO3_quat for all nonzero P"
    )
    sys.exit(1)
print("\nOK")
sys.exit(0)
