"""C10 finding 1: SE(3) rod element spanning a half turn is not objective.

A stress-free reference configuration whose SE(3) elements each span exactly
half a turn (semicircle with 1 element, closed ring with 2 elements, ...) is
moved rigidly (all nodes: r -> R r + t, p -> p_R * p).  Strain energy, internal
forces, compliance stresses la_c and the internal-constraint residual g must
stay zero.  Observed: for many rotations R they jump to O(1)..O(10) values,
because Log_SO3 picks the sign of the half-turn rotation vector from the sign of
a rounding-noise quantity.

Run:  cd /tmp/seed4/C10 && PYTHONPATH=/tmp/seed4/C10 /venv/bin/python /tmp/seed5/out/C10/1/demo.py
"""
import sys
import warnings
import numpy as np

warnings.filterwarnings("ignore")
import cardillo

print("cardillo.__file__ =", cardillo.__file__)

from cardillo.rods import RectangularCrossSection, Simo1986
from cardillo.rods.cosseratRod import make_CosseratRod
from cardillo.math import Exp_SO3, quatprod, axis_angle2quat


def rigid(rod, q, psi, t):
    """superpose the rigid motion x -> Exp(psi) x + t on all nodes of the rod"""
    angle = np.linalg.norm(psi)
    R = Exp_SO3(psi)
    pR = axis_angle2quat(psi / angle, angle)
    q2 = q.copy()
    for dof in rod.nodalDOF_r:
        q2[dof] = R @ q[dof] + t
    for dof in rod.nodalDOF_p:
        q2[dof] = quatprod(pR, q[dof])
    return q2


def build(mixed, constraints, nelement, Q):
    Rod = make_CosseratRod(interpolation="SE3", mixed=mixed, constraints=constraints)
    rod = Rod(
        RectangularCrossSection(0.1, 0.05),
        Simo1986(np.array([5.0, 1.0, 2.0]), np.array([0.5, 2.0, 3.0])),
        nelement,
        Q=Q,
    )
    rod.assembler_callback()  # what System.assemble() would call
    return rod


def circle_Q(nelement, exact):
    """unit circle in the x-y plane, nelement elements of half a turn each"""
    nn = nelement + 1
    phis = np.pi * np.arange(nn)
    if exact:
        # nodal data written down exactly: points (0,0,0),(0,2,0),(0,0,0).., quaternions
        # (1,0,0,0),(0,0,0,1),(1,0,0,0)...   (rotation about e_z by k*pi)
        r = np.array([[0.0, 2.0 * (k % 2), 0.0] for k in range(nn)]).T
        p = np.array([[1.0, 0, 0, 0] if k % 2 == 0 else [0, 0, 0, 1.0] for k in range(nn)]).T
        return np.concatenate([r.reshape(-1), p.reshape(-1)])
    else:
        # the documented helper with cos/sin data
        Rod = make_CosseratRod(interpolation="SE3", mixed=False)
        total = np.pi * nelement
        r_OP = lambda xi: np.array([np.sin(total * xi), 1 - np.cos(total * xi), 0.0])
        A_IB = lambda xi: np.array(
            [
                [np.cos(total * xi), -np.sin(total * xi), 0],
                [np.sin(total * xi), np.cos(total * xi), 0],
                [0, 0, 1.0],
            ]
        )
        return Rod.pose_configuration(nelement, r_OP, A_IB)


# fixed list of rigid motions
rng = np.random.default_rng(2024)
motions = []
for k in range(60):
    psi = rng.standard_normal(3)
    psi *= rng.uniform(0.05, np.pi) / np.linalg.norm(psi)
    motions.append((psi, rng.standard_normal(3)))

TOL = 1e-9
nviol = 0
for label, nelement, exact in [
    ("semicircle, 1 element, Rod.pose_configuration", 1, False),
    ("closed ring, 2 elements, Rod.pose_configuration", 2, False),
    ("semicircle, 1 element, exact nodal data", 1, True),
    ("closed ring, 2 elements, exact nodal data", 2, True),
]:
    Q = circle_Q(nelement, exact)
    for mixed, constraints in [(False, None), (True, None), (True, (1, 2, 5))]:
        rod = build(mixed, constraints, nelement, Q)
        u0 = np.zeros(rod.nu)
        # reference itself is fine
        ref = [abs(rod.E_pot(0, rod.Q)), np.abs(rod.h(0, rod.Q, u0)).max()]
        if mixed:
            ref.append(np.abs(rod.la_c(0, rod.Q, u0)).max())
        if constraints:
            ref.append(np.abs(rod.g(0, rod.Q)).max())
        bad = 0
        worst = dict(E_pot=0.0, f_int=0.0, la_c=0.0, g=0.0)
        # pure translations never do harm
        for psi, t in motions:
            q2 = rigid(rod, rod.Q, psi, t)
            E = abs(rod.E_pot(0, q2))
            vals = dict(E_pot=E)
            if mixed:
                la_c = rod.la_c(0, q2, u0)
                vals["la_c"] = np.abs(la_c).max()
                vals["f_int"] = np.abs(rod.W_c(0, q2).toarray() @ la_c).max()
            else:
                vals["f_int"] = np.abs(rod.h(0, q2, u0)).max()
            if constraints:
                vals["g"] = np.abs(rod.g(0, q2)).max()
            if max(vals.values()) > TOL:
                bad += 1
            for k, v in vals.items():
                worst[k] = max(worst[k], v)
        nviol += bad
        print(
            f"{label:48s} mixed={mixed!s:5} constraints={constraints!s:9}: "
            f"reference max={max(ref):.1e}; rigidly moved reference violates in {bad:2d}/{len(motions)} motions; "
            + ", ".join(f"worst {k}={v:.3e}" for k, v in worst.items())
        )

if nviol:
    print(
        f"\nFAIL: {nviol} (configuration, rigid motion) pairs for which the rigidly moved stress-free "
        f"reference has non-zero strain energy / internal forces / la_c / g (expected: all < {TOL})"
    )
    sys.exit(1)
print("\nOK: strain energy, internal forces, la_c and g vanish for every rigidly moved reference")
sys.exit(0)
