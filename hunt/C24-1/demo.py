"""C24 / finding 1: with the default settings a restart from a state that the
time-stepping solvers produced themselves is rejected by set_new_initial_state.

run as
  cd /tmp/seed4/C24 && PYTHONPATH=/tmp/seed4/C24 /venv/bin/python /tmp/seed5/out/C24/1/demo.py
"""
import sys, io, contextlib
import numpy as np
import cardillo
from cardillo import System
from cardillo.discrete import RigidBody
from cardillo.constraints import Revolute
from cardillo.forces import Force
from cardillo.force_laws import Spring
from cardillo.math import A_IB_basic, cross3
from cardillo.solver import Moreau, Rattle, BackwardEuler, DualStormerVerlet, ScipyDAE

print("cardillo.__file__ =", cardillo.__file__)


def quiet(f):
    buf = io.StringIO()
    with contextlib.redirect_stdout(buf), contextlib.redirect_stderr(buf):
        return f()


def build():
    """planar double pendulum (two revolute joints about e_y), torsional spring in joint 1"""
    system = System()
    L, m = 0.5, 1.0
    Theta = np.diag([1e-3, m * L**2 / 12, m * L**2 / 12])
    prev, r_OJ, v_J, Om_prev = system.origin, np.zeros(3), np.zeros(3), np.zeros(3)
    for i, (phi, phi_dot) in enumerate([(0.3, 1.0), (0.8, -0.5)]):
        A_IB = A_IB_basic(phi).y
        Om = Om_prev + np.array([0, phi_dot, 0])
        r_OC = r_OJ + A_IB @ np.array([L / 2, 0, 0])
        v_C = v_J + cross3(Om, A_IB @ np.array([L / 2, 0, 0]))
        body = RigidBody(m, Theta, q0=RigidBody.pose2q(r_OC, A_IB), u0=np.hstack([v_C, A_IB.T @ Om]), name=f"body{i}")
        joint = Revolute(prev, body, axis=1, r_OJ0=r_OJ.copy(), A_IJ0=np.eye(3), name=f"joint{i}")
        system.add(body, joint, Force(np.array([0, 0, -9.81 * m]), body, name=f"gravity{i}"))
        if i == 1:
            system.add(Spring(joint, 2.0, l_ref=0.0, name="spring"))
        v_J = v_J + cross3(Om, A_IB @ np.array([L, 0, 0]))
        r_OJ = r_OJ + A_IB @ np.array([L, 0, 0])
        prev, Om_prev = body, Om
    quiet(system.assemble)
    return system


t1, dt, k = 0.2, 1e-2, 10
failures = 0
for Solver in [Moreau, Rattle, BackwardEuler, DualStormerVerlet, ScipyDAE]:
    name = Solver.__name__
    # uninterrupted run
    sol_ref = quiet(lambda: Solver(build(), t1, dt).solve())
    # run to the split time, copy, re-initialise with the state reached there
    system = build()
    sol1 = quiet(lambda: Solver(system, k * dt, dt).solve())
    g_split = np.max(np.abs(system.g(sol1.t[-1], sol1.q[-1])))
    gd_split = np.max(np.abs(system.g_dot(sol1.t[-1], sol1.q[-1], sol1.u[-1])))
    copy = system.deepcopy()
    try:
        quiet(lambda: copy.set_new_initial_state(sol1.q[-1], sol1.u[-1], t0=sol1.t[-1]))
        sol2 = quiet(lambda: Solver(copy, t1, dt).solve())
        q = np.vstack([sol1.q, sol2.q[1:]])
        err = np.max(np.abs(q - sol_ref.q)) if q.shape == sol_ref.q.shape else np.inf
        ok = err < 1e-4
        print(f"{name:18s}: restart ran, max |q_restart - q_uninterrupted| = {err:.2e}  (|g|={g_split:.1e}, |g_dot|={gd_split:.1e} at split)")
    except AssertionError as e:
        ok = False
        print(f"{name:18s}: set_new_initial_state REJECTED the solver's own state at step {k}: AssertionError('{e}')"
              f"   [|g|={g_split:.1e}, |g_dot|={gd_split:.1e} at the split state, fixed check tolerance 1e-8]")
    failures += not ok

if failures:
    print(f"\nFAIL: {failures} of 5 solvers cannot be restarted from their own intermediate state with the default settings")
    sys.exit(1)
print("OK")
