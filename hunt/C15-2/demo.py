"""C15 finding 2: the rejection of inconsistent block shapes is implemented with
`assert`; with `python -O` (PYTHONOPTIMIZE) the writes are accepted silently and
a wrong matrix is assembled.

Run:  cd /tmp/seed4/C15 && PYTHONPATH=/tmp/seed4/C15 /venv/bin/python /tmp/seed5/out/C15/2/demo.py
"""
import os
import subprocess
import sys

CHILD = r'''
import sys
import numpy as np
import scipy.sparse as sp
import cardillo
from cardillo.utility.coo_matrix import CooMatrix
print("  cardillo.__file__ =", cardillo.__file__, "| sys.flags.optimize =", sys.flags.optimize)

inner = CooMatrix((1, 1)); inner[0, 0] = 3.0
cases = {
    "dense (3,2) block into a 2x3 key": np.arange(1.0, 7.0).reshape(3, 2),
    "csr_array (2,2) block into a 2x3 key": sp.csr_array(np.arange(1.0, 5.0).reshape(2, 2)),
    "nested CooMatrix (1,1) into a 2x3 key": inner,
}
accepted = 0
for name, value in cases.items():
    coo = CooMatrix((3, 3))
    try:
        coo[[0, 1], [0, 1, 2]] = value
    except Exception as e:
        print(f"  rejected  {name}: {type(e).__name__}: {e}")
        continue
    accepted += 1
    print(f"  ACCEPTED  {name}; assembled matrix = {coo.toarray().tolist()}")
sys.exit(accepted)
'''

here = "/tmp/seed4/C15"
env = dict(os.environ, PYTHONPATH=here)
env.pop("PYTHONOPTIMIZE", None)
total = 0
for flags in ([], ["-O"]):
    print("interpreter flags:", flags or "(none)")
    r = subprocess.run([sys.executable, *flags, "-c", CHILD], cwd=here, env=env)
    print("  -> number of inconsistent writes accepted:", r.returncode)
    total += r.returncode

if total:
    print("\nVIOLATION: inconsistent block shapes are not rejected under python -O")
    sys.exit(1)
print("no violation")
sys.exit(0)
