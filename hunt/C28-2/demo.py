"""C28 finding 2: a floating joint with an offset AND an angular velocity gets a
wrong linear velocity.

For a floating joint the importer takes configuration = (J_r_JRc, orientation)
and velocities = (J_v_JRc, J_omega_JRc), documented in joint_kinematics as
"relative linear velocity from joint to child" and "relative angular velocity",
both in the joint frame J that is fixed to the parent.  Hence

    r_ORc(t) = r_OJ + A_IJ (J_r_JRc + J_v_JRc t + ...),
    v_Rc     = v_J(parent) + A_IJ ( J_v_JRc + J_omega_IJ x J_r_JRc )

with the angular velocity of the PARENT (J is parent-fixed) in the transport term.
system_from_urdf uses the angular velocity of the CHILD instead
(J_omega_IRc = parent + relative), which adds  A_IJ (J_omega_JRc x J_r_JRc).

The oracle differentiates the forward kinematics numerically
(central differences of r_OC(t) with p(t) = p + v t, R(t) = Exp(w t) R).

Run:  cd /tmp/seed4/C28 && PYTHONPATH=/tmp/seed4/C28 /venv/bin/python /tmp/seed5/out/C28/2/demo.py
"""
import contextlib, io, os, sys, tempfile
import numpy as np
import cardillo
from cardillo.urdf import system_from_urdf

print("cardillo:", cardillo.__file__)


def rpy2A(rpy):
    r, p, y = rpy
    Rx = np.array([[1, 0, 0], [0, np.cos(r), -np.sin(r)], [0, np.sin(r), np.cos(r)]])
    Ry = np.array([[np.cos(p), 0, np.sin(p)], [0, 1, 0], [-np.sin(p), 0, np.cos(p)]])
    Rz = np.array([[np.cos(y), -np.sin(y), 0], [np.sin(y), np.cos(y), 0], [0, 0, 1]])
    return Rz @ Ry @ Rx


def expm_so3(w):
    th = np.linalg.norm(w)
    K = np.array([[0, -w[2], w[1]], [w[2], 0, -w[0]], [-w[1], w[0], 0]])
    if th < 1e-14:
        return np.eye(3) + K
    return np.eye(3) + np.sin(th) / th * K + (1 - np.cos(th)) / th**2 * K @ K


def urdf(j_xyz, j_rpy, c_xyz, c_rpy):
    f = lambda v: " ".join(repr(float(x)) for x in v)
    return f"""<?xml version="1.0"?>
<robot name="floating_demo">
  <link name="base"/>
  <link name="body">
    <inertial><origin xyz="{f(c_xyz)}" rpy="{f(c_rpy)}"/><mass value="1.5"/>
      <inertia ixx="0.1" ixy="0.01" ixz="0" iyy="0.2" iyz="0.02" izz="0.3"/></inertial>
  </link>
  <joint name="F" type="floating">
    <parent link="base"/><child link="body"/>
    <origin xyz="{f(j_xyz)}" rpy="{f(j_rpy)}"/>
  </joint>
</robot>
"""


def load(xml, **kw):
    with tempfile.NamedTemporaryFile("w", suffix=".urdf", delete=False) as f:
        f.write(xml)
        fn = f.name
    try:
        with contextlib.redirect_stdout(io.StringIO()):
            return system_from_urdf(fn, **kw)
    finally:
        os.unlink(fn)


def run(label, j_xyz, j_rpy, c_xyz, c_rpy, p, rpy, v, w):
    cfg = np.hstack([p, rpy])
    vel = np.hstack([v, w])
    system = load(urdf(j_xyz, j_rpy, c_xyz, c_rpy), configuration={"F": cfg}, velocities={"F": vel})
    b = system.contributions_map["body"]
    q, u = system.q0[b.qDOF], system.u0[b.uDOF]
    r_C = b.r_OP(system.t0, q)
    A_IB = b.A_IB(system.t0, q)
    v_C = b.v_P(system.t0, q, u)
    B_Om = b.B_Omega(system.t0, q, u)

    # oracle: base frame = inertial frame and at rest (fixed root)
    A_IJ = rpy2A(j_rpy)

    def pose(t):
        A_IR = A_IJ @ expm_so3(w * t) @ rpy2A(rpy)
        r_OR = j_xyz + A_IJ @ (p + v * t)
        return r_OR + A_IR @ c_xyz, A_IR @ rpy2A(c_rpy)

    h = 1e-5
    (rp, Ap), (rm, Am), (r0, A0) = pose(h), pose(-h), pose(0.0)
    v_ref = (rp - rm) / (2 * h)
    W = A0.T @ (Ap - Am) / (2 * h)
    om_ref = 0.5 * np.array([W[2, 1] - W[1, 2], W[0, 2] - W[2, 0], W[1, 0] - W[0, 1]])

    # velocity of the child reference point Rc relative to the resting parent, in J
    v_Rc = v_C - A_IB @ np.cross(B_Om, A_IB.T @ (r_C - (j_xyz + A_IJ @ p)))
    J_v_reported = A_IJ.T @ v_Rc

    e_r, e_A = np.linalg.norm(r_C - r0), np.linalg.norm(A_IB - A0)
    e_v, e_om = np.linalg.norm(v_C - v_ref), np.linalg.norm(B_Om - om_ref)
    print(f"\n{label}")
    print("   pose error           |r_C - ref| = %.2e   |A_IB - ref| = %.2e" % (e_r, e_A))
    print("   angular velocity     |B_Omega - ref| = %.2e" % e_om)
    print("   v_C imported  =", v_C)
    print("   v_C reference =", v_ref)
    print("   |v_C - ref| = %.6g ;  |A_IJ (w x p)| = %.6g" % (e_v, np.linalg.norm(np.cross(w, p))))
    print("   requested J_v_JRc =", v, " reported by the imported state:", J_v_reported)
    return max(e_r, e_A, e_om) < 1e-6 and e_v < 1e-6


ok = True
z = np.zeros(3)
# control 1: offset but no angular velocity, control 2: angular velocity but no offset
ok1 = run("control A (offset, linear velocity, no angular velocity)",
          np.array([0.2, 0.1, -0.3]), np.array([0.3, -0.2, 0.5]), np.array([0.1, 0.2, 0.3]), np.array([0.2, 0.1, -0.4]),
          np.array([1.0, -0.5, 0.25]), np.array([0.4, -0.3, 0.2]), np.array([0.3, 0.2, -0.1]), z)
ok2 = run("control B (angular velocity, no offset)",
          np.array([0.2, 0.1, -0.3]), np.array([0.3, -0.2, 0.5]), np.array([0.1, 0.2, 0.3]), np.array([0.2, 0.1, -0.4]),
          z, np.array([0.4, -0.3, 0.2]), np.array([0.3, 0.2, -0.1]), np.array([0.5, -1.0, 2.0]))
# simplest trigger: child 1 m along x, spinning about z, NO requested linear velocity
ok3 = run("trigger 1 (identity frames, p = (1,0,0), w = (0,0,1), v = 0)",
          z, z, z, z, np.array([1.0, 0.0, 0.0]), z, z, np.array([0.0, 0.0, 1.0]))
# general case
ok4 = run("trigger 2 (general)",
          np.array([0.2, 0.1, -0.3]), np.array([0.3, -0.2, 0.5]), np.array([0.1, 0.2, 0.3]), np.array([0.2, 0.1, -0.4]),
          np.array([1.0, -0.5, 0.25]), np.array([0.4, -0.3, 0.2]), np.array([0.3, 0.2, -0.1]), np.array([0.5, -1.0, 2.0]))

print()
print("controls ok:", ok1, ok2, "  triggers ok:", ok3, ok4)
if ok1 and ok2 and ok3 and ok4:
    print("PASS")
    sys.exit(0)
print("FAIL: linear velocity of the child of a floating joint differs from the forward-kinematics velocity")
sys.exit(1)
