"""C12 finding 2 (low significance, contrived representation): dilatation
vectors stored as *integer* numpy arrays are squared in int64 by
cardillo.math.algebra.norm (np.sqrt(a @ a)).  For |B_Gamma| or |B_Gamma0|
>= ~3.04e9 the dot product wraps around silently, Harsch2021 sees a wrong
stretch and returns a wrong energy / wrong forces / wrong tangent without
any warning.  The same points of R^3 passed as float64 are handled correctly.

Run:  cd /tmp/seed4/C12 && PYTHONPATH=/tmp/seed4/C12 /venv/bin/python /tmp/seed5/out/C12/2/demo.py
"""
import sys
import warnings
import numpy as np
import cardillo
from cardillo.rods import Harsch2021
from cardillo.math.algebra import norm

warnings.simplefilter("error")  # not even a RuntimeWarning is raised
print("cardillo.__file__ =", cardillo.__file__)

K = np.zeros(3)
K0 = np.zeros(3)
law = Harsch2021(np.array([5.0, 1.0, 2.0]), np.array([0.5, 2.0, 3.0]))
bad = False
TOL = 1e-9


def check(name, got, ref, scale):
    global bad
    err = float(np.max(abs(np.asarray(got, float) - np.asarray(ref, float)))) / scale
    flag = "VIOLATION" if err > TOL else "ok"
    print(f"  {name}: code {got}  reference {ref}  scaled err {err:.3e}  {flag}")
    bad |= err > TOL


G_int = np.array([5_000_000_000, 0, 0])  # int64, |.| = 5e9 < 1e12
G_flt = G_int.astype(float)
print("norm(int64 [5e9,0,0]) =", norm(G_int), "  norm(float64 [5e9,0,0]) =", norm(G_flt))

print("case A: B_Gamma int64 (5e9,0,0), B_Gamma0 = (1,0,0): pure extension, closed form")
G0 = np.array([1.0, 0.0, 0.0])
W_exact = 0.5 * 5.0 * (5e9 - 1.0) ** 2
check("potential", law.potential(G_int, G0, K, K0), W_exact, W_exact)
check("potential (float64 input)", law.potential(G_flt, G0, K, K0), W_exact, W_exact)

print("case B: reference B_Gamma0 int64 (5e9,0,0), current B_Gamma float64 (5e9,0,0): the SAME point,")
print("        so energy, force must vanish and the tangent must be E0 * e_x e_x^T + diag(0,E1,E2)")
W = law.potential(G_flt, G_int, K, K0)
n = law.B_n(G_flt, G_int, K, K0)
T = law.B_n_B_Gamma(G_flt, G_int, K, K0)
T_ref = np.diag([5.0, 1.0, 2.0])
check("potential", W, 0.0, 0.5 * 5.0 * 5e9**2)
check("B_n", n, np.zeros(3), 5.0 * 5e9)
check("B_n_B_Gamma diag", np.diag(T), np.diag(T_ref), 5.0)
check(
    "B_n (float64 reference)",
    law.B_n(G_flt, G_flt, K, K0),
    np.zeros(3),
    5.0 * 5e9,
)

if bad:
    print("FAIL: silent int64 wrap-around in norm() corrupts the Harsch2021 law")
    sys.exit(1)
print("OK")
sys.exit(0)
