"""C21 finding 3: with SolverOptions(continue_with_unconverged=True) DualStormerVerlet
(and Riks) do not "warn and continue" when their nonlinear iteration fails; the option
is ignored and the run is aborted with an exception, all computed steps are lost.
Moreau, Rattle and BackwardEuler honour the option on the very same problem.

Run:  cd /tmp/seed4/C21 && PYTHONPATH=/tmp/seed4/C21 /venv/bin/python /tmp/seed5/out/C21/3/demo.py
Exit 0: with continue_with_unconverged=True every solver warns and integrates up to t1.
Exit 1: a solver aborts although continue_with_unconverged=True.
"""
import contextlib
import io
import sys
import warnings

import numpy as np

import cardillo
from cardillo import System
from cardillo.contacts import Sphere2Plane
from cardillo.discrete import Frame, RigidBody
from cardillo.forces import Force
from cardillo.math.approx_fprime import approx_fprime
from cardillo.solver import DualStormerVerlet, Moreau, Rattle, Riks, SolverOptions

print("cardillo.__file__ =", cardillo.__file__)

T1, DT = 0.3, 1e-2


def ball_system():
    """Ball (r = 0.05) dropped from z = 0.1 with horizontal velocity on a rough plane;
    hits the plane at t ~ 0.1."""
    system = System()
    floor = Frame(name="floor")
    q0 = RigidBody.pose2q(np.array([0, 0, 0.1]), np.eye(3))
    u0 = np.array([1.0, 0, 0, 0, 0, 0])
    ball = RigidBody(1.0, 1e-3 * np.eye(3), q0=q0, u0=u0, name="ball")
    system.add(floor, ball, Force(np.array([0, 0, -10.0]), ball, name="gravity"))
    system.add(Sphere2Plane(floor, ball, mu=0.3, r=0.05, e_N=0.0, e_F=0.0, name="contact"))
    with contextlib.redirect_stdout(io.StringIO()):
        system.assemble()
    return system


def call(fun):
    sol, exc = None, None
    with warnings.catch_warnings(record=True) as w:
        warnings.simplefilter("always")
        try:
            with contextlib.redirect_stdout(io.StringIO()), contextlib.redirect_stderr(
                io.StringIO()
            ):
                sol = fun()
        except Exception as e:
            exc = e
    msgs = sorted(set(str(x.message) for x in w))
    return sol, msgs, exc


bad = []
# the iteration limits are chosen such that the smooth flight phase converges and the
# iteration fails for real (no fault injection) at the impact.
for cls, max_iter in [(Moreau, 2), (Rattle, 3), (DualStormerVerlet, 3)]:
    for cont in (False, True):
        system = ball_system()
        opts = SolverOptions(fixed_point_max_iter=max_iter, continue_with_unconverged=cont)
        with warnings.catch_warnings():
            warnings.simplefilter("ignore")  # DualStormerVerlet announces constant_mass_matrix=True
            solver = cls(system, T1, DT, options=opts)
        sol, msgs, exc = call(solver.solve)
        msgs = [m for m in msgs if "constant_mass_matrix" not in m]
        tn = getattr(solver, "tn", None)
        if exc is not None:
            print(f"{cls.__name__:18s} continue={cont!s:5s}: raised {type(exc).__name__}('{exc}') in the step starting at t={tn}")
        else:
            print(f"{cls.__name__:18s} continue={cont!s:5s}: returned {len(sol.t)} points up to t={sol.t[-1]:.2f}; warnings={msgs}")
        if cont:
            ok = exc is None and sol is not None and abs(sol.t[-1] - T1) < 1e-9 and any("converged" in m for m in msgs)
            if not ok:
                bad.append(cls.__name__)
                print(f"   -> {cls.__name__} does not warn-and-continue although continue_with_unconverged=True")


# secondary: Riks (static arc-length solver) on the truss of test/test_riks.py
class Truss2D:
    def __init__(self):
        self.stiffness, self.phi0, self.width = 1.0, np.pi / 4, 1.0
        self.nu = self.nq = 1
        self.u0 = np.zeros(1)
        self.q0 = np.array([self.phi0])
        self.constant_mass_matrix = True

    def M(self, t, q):
        return np.eye(1)

    def h(self, t, q, u):
        s, c = np.sin(q[0]), np.cos(q[0])
        return np.array([t + 2 * self.stiffness * (self.width / c - self.width / np.cos(self.phi0)) * s])

    def h_q(self, t, q, u):
        return approx_fprime(q, lambda q: self.h(t, q, u), method="cs")


for cont in (False, True):
    system = System()
    system.add(Truss2D())
    with contextlib.redirect_stdout(io.StringIO()):
        system.assemble()
    opts = SolverOptions(newton_atol=1e-8, newton_rtol=1e-8, newton_max_iter=3, continue_with_unconverged=cont)
    sol, msgs, exc = call(lambda: Riks(system, la_arc_span=[-1, 1], la_arc0=1e-6, iter_goal=8, options=opts).solve())
    msgs = [m for m in msgs if "approx_fprime" not in m]
    if exc is not None:
        print(f"{'Riks':18s} continue={cont!s:5s}: raised {type(exc).__name__}('{exc}'); warnings={msgs}")
    else:
        print(f"{'Riks':18s} continue={cont!s:5s}: returned {len(sol.t)} points up to la_arc={sol.t[-1]:.3e}; warnings={msgs}")
    if cont and exc is not None:
        bad.append("Riks")
        print("   -> Riks does not warn-and-continue although continue_with_unconverged=True")

if bad:
    print("FAIL: continue_with_unconverged=True is ignored by:", bad)
    sys.exit(1)
print("PASS")
sys.exit(0)
