"""C29 finding 2: rod volume export with "surface_normals": True evaluates the normals with the
element index el = <vtk cell index>.  As soon as the documented option "ncells" differs from the
number of rod elements the written vector field "surface_normal" is NOT the surface normal of the
rod at the frame (ncells < nelement: silently wrong, extrapolated from a foreign element;
ncells > nelement: IndexError in the middle of the export).

Run:  cd /tmp/seed4/C29 && PYTHONPATH=/tmp/seed4/C29 /venv/bin/python /tmp/seed5/out/C29/2/demo.py
Exit code 0 <=> every exported surface normal equals the normal of the rod's lateral surface
(finite-difference oracle built only from rod.r_OP / rod.A_IB).
"""
import sys, tempfile, warnings
import numpy as np

warnings.filterwarnings("ignore")
import cardillo

print("cardillo from:", cardillo.__file__)

import vtk
from vtk.util.numpy_support import vtk_to_numpy
from cardillo import System
from cardillo.constraints import RigidConnection
from cardillo.forces import Force, B_Moment
from cardillo.rods import CircularCrossSection, Simo1986
from cardillo.rods.cosseratRod import make_CosseratRod
from cardillo.solver import Newton
from cardillo.visualization import Export

RADIUS = 0.2
NEL = 4
L = 2 * np.pi


def read_point_data(f):
    r = vtk.vtkXMLUnstructuredGridReader()
    r.SetFileName(str(f))
    r.Update()
    g = r.GetOutput()
    pd = g.GetPointData()
    return {
        pd.GetArrayName(i): vtk_to_numpy(pd.GetArray(i)).copy()
        for i in range(pd.GetNumberOfArrays())
    }


def build():
    Rod = make_CosseratRod(interpolation="Quaternion", mixed=True, polynomial_degree=2)
    cs = CircularCrossSection(RADIUS)  # default: wedge cells, 6 points per layer
    mat = Simo1986(np.array([5.0, 1.0, 1.0]), np.array([0.5, 2.0, 2.0]))
    q0 = Rod.straight_configuration(NEL, L)
    rod = Rod(cs, mat, NEL, Q=q0, q0=q0, name="rod")
    system = System()
    system.add(
        rod,
        RigidConnection(system.origin, rod, xi2=0, name="clamp"),
        Force(lambda t: t * np.array([0.0, -0.25, 0.08]), rod, 1.0, name="tip_force"),
        B_Moment(lambda t: t * np.array([0.15, 0.0, 0.1]), rod, 1.0, name="tip_moment"),
    )
    system.assemble()
    sol = Newton(system, n_load_steps=4).solve()
    assert len(sol.t) == 5, "static solve did not finish"
    return rod, sol


def surface_point(rod, q, xi, eta):
    qb = q[rod.qDOF]
    qp = qb[rod.local_qDOF_P(xi)]
    B_r_PQ = RADIUS * np.array([0.0, np.cos(eta), np.sin(eta)])
    return rod.r_OP(0.0, qp, xi) + rod.A_IB(0.0, qp, xi) @ B_r_PQ


def fd_normal(rod, q, xi, eta, h=1e-5):
    # outward normal of the lateral surface r(xi, eta); one-sided at the rod ends
    f = lambda x: surface_point(rod, q, x, eta)
    if xi - h < 0.0:  # second-order one-sided stencils at the rod ends
        r_xi = (-3 * f(xi) + 4 * f(xi + h) - f(xi + 2 * h)) / (2 * h)
    elif xi + h > 1.0:
        r_xi = (3 * f(xi) - 4 * f(xi - h) + f(xi - 2 * h)) / (2 * h)
    else:
        r_xi = (f(xi + h) - f(xi - h)) / (2 * h)
    r_eta = (surface_point(rod, q, xi, eta + h) - surface_point(rod, q, xi, eta - h)) / (2 * h)
    n = np.cross(r_eta, r_xi)
    return n / np.linalg.norm(n)


rod, sol = build()
tmp = tempfile.mkdtemp()
e = Export(tmp, "vtk", True, 50, sol)
etas = rod.cross_section.point_etas
ppl = rod.cross_section.vtk_points_per_layer
el_bounds = np.linspace(0, 1, NEL + 1)

failures = 0
for ncells in (NEL, 2, 3, 6):
    rod._export_dict.update(
        {"level": "volume", "ncells": ncells, "surface_normals": True}
    )
    rod.preprocessed_export = False  # re-evaluate the export options
    fname = f"rod_ncells{ncells}"
    try:
        e.export_contr(rod, file_name=fname)
    except Exception as ex:
        print(f"ncells={ncells} (nelement={NEL}): export raised {type(ex).__name__}: {ex}")
        failures += 1
        continue
    worst, worst_at, nchecked = 0.0, None, 0
    for k in range(len(e.solution.t)):
        q = e.solution.q[k]
        sn = read_point_data(e.path / f"{fname}_{k}.vtu")["surface_normal"]
        idx = ppl  # first ppl points: cap at xi = 0
        for cell in range(ncells):
            for layer in range(4):
                xi = (cell + layer / 3) / ncells
                on_boundary = np.min(np.abs(el_bounds[1:-1] - xi)) < 1e-9
                for p in range(ppl):
                    if not on_boundary:  # the normal jumps at element boundaries (C0 elements)
                        err = np.linalg.norm(sn[idx] - fd_normal(rod, q, xi, etas[p]))
                        nchecked += 1
                        if err > worst:
                            worst, worst_at = err, (k, xi, etas[p], sn[idx].copy(), fd_normal(rod, q, xi, etas[p]))
                    idx += 1
    ok = worst < 1e-6
    print(
        f"ncells={ncells} (nelement={NEL}): {nchecked} normals checked, "
        f"max |exported - true normal| = {worst:.3e}  {'OK' if ok else 'WRONG'}"
    )
    if not ok:
        k, xi, eta, a, b = worst_at
        ang = np.degrees(np.arccos(np.clip(a @ b, -1, 1)))
        print(f"     frame {k} (t={e.solution.t[k]:.2f}), xi={xi:.4f}, eta={eta:.4f}: file {a}  true {b}  angle {ang:.1f} deg")
        failures += 1

if failures:
    print(f"\nFAIL: {failures} of the 4 export configurations do not write the rod's surface normals.")
    sys.exit(1)
print("\nPASS")
sys.exit(0)
