"""C09 finding 1: MaxwellElement with default l_ref is pre-stressed when the
documented initial damper elongation q0 is non-zero.

Run:  cd /tmp/seed4/C09 && PYTHONPATH=/tmp/seed4/C09 /venv/bin/python /tmp/seed5/out/C09/1/demo.py
Exit code 0 <=> force and stored energy of the element vanish in the initial
configuration for every tested case.
"""
import sys
import numpy as np
import cardillo

print("cardillo.__file__ =", cardillo.__file__)

from cardillo import System
from cardillo.discrete import PointMass, RigidBody
from cardillo.interactions import TwoPointInteraction
from cardillo.constraints import Revolute
from cardillo.force_laws import MaxwellElement
from cardillo.math import axis_angle2quat

k, eta = 10.0, 2.0
failures = []


def report(tag, system, law):
    t0, q0, u0 = system.t0, system.q0, system.u0
    F = float(law.force(t0, q0[law.qDOF], u0[law.uDOF]))
    E = float(law.E_pot(t0, q0[law.qDOF]))
    E_sys = float(system.E_pot(t0, q0))
    h = np.abs(system.h(t0, q0, u0)).max()
    l_d_dot = float(system.q_dot0[law.my_qDOF][0])
    acc = np.abs(system.u_dot0).max()
    print(
        f"{tag:34s} l_ref={law.l_ref:.6f}  force={F:+.6e}  E_pot={E:.6e} "
        f"(system.E_pot={E_sys:.6e})  max|h|={h:.3e}  l_d_dot0={l_d_dot:+.3e}  max|u_dot0|={acc:.3e}"
    )
    ok = abs(F) < 1e-10 * k and abs(E) < 1e-12 and h < 1e-10 * k
    if not ok:
        failures.append(tag)


for l_d0 in [0.0, 0.2, -0.05]:
    # --- translational: point mass -- origin -------------------------------
    system = System()
    pm = PointMass(1.0, q0=np.array([1.0, 0.0, 0.0]))
    tpi = TwoPointInteraction(system.origin, pm)
    law = MaxwellElement(tpi, k, eta, q0=np.array([l_d0]))  # l_ref not given
    system.add(pm, tpi, law)
    system.assemble()
    report(f"TwoPointInteraction  l_d0={l_d0:+.2f}", system, law)

    # --- rotational: revolute joint with angle0 != 0 -----------------------
    system = System()
    q0 = np.concatenate([[0.0, 0.0, 0.0], axis_angle2quat(np.array([0.0, 0.0, 1.0]), 0.3)])
    rb = RigidBody(1.0, np.diag([1.0, 2.0, 3.0]), q0=q0)
    rev = Revolute(system.origin, rb, axis=2, angle0=0.7)
    law = MaxwellElement(rev, k, eta, q0=np.array([l_d0]))  # l_ref not given
    system.add(rb, rev, law)
    system.assemble()
    report(f"Revolute(angle0=0.7) l_d0={l_d0:+.2f}", system, law)

print()
if failures:
    print("VIOLATED: element attached without l_ref is NOT stress-free in the initial configuration for:")
    for f in failures:
        print("   ", f)
    sys.exit(1)
print("ok: stress-free initial configuration in all cases")
sys.exit(0)
