"""C26 / finding 2

The memoised kinematic evaluations hand out the cache entry itself (no copy,
writable).  Ordinary caller-side arithmetic on a returned value ("r -= r_ref",
"ex *= scale", ...) therefore rewrites the cache, and every later evaluation
with the same arguments - by the user, by a constraint, by the rod's internal
force assembly - silently returns the modified numbers.  Without memoisation
each evaluation returns a fresh array, so the results below would not change.

Run:  cd /tmp/seed4/C26 && PYTHONPATH=/tmp/seed4/C26 /venv/bin/python /tmp/seed5/out/C26/2/demo.py
"""
import contextlib
import io
import sys
import warnings

import numpy as np

import cardillo
from cardillo import System
from cardillo.discrete import RigidBody
from cardillo.contacts import Sphere2Sphere
from cardillo.math import Exp_SO3_quat, ax2skew
from cardillo.rods import CircularCrossSection, CrossSectionInertias, Simo1986
from cardillo.rods.cosseratRod import make_CosseratRod

print("cardillo.__file__ =", cardillo.__file__)
warnings.simplefilter("ignore")

failures = []


def report(name, before, after):
    d = float(np.max(np.abs(np.asarray(before) - np.asarray(after))))
    status = "ok" if d < 1e-12 else "CHANGED"
    print(f"  {name:58s} max|after - before| = {d:.3e}  {status}")
    if d >= 1e-12:
        failures.append((name, d))


def mutate(f):
    """caller-side in-place arithmetic; a read-only result would be a valid repair"""
    try:
        f()
    except ValueError as e:  # "assignment destination is read-only"
        print("   (in-place modification refused:", e, ")")


# ----------------------------------------------------------------------------
# 1) rigid body
# ----------------------------------------------------------------------------
print("rigid body")
p = np.array([0.9, 0.1, -0.3, 0.2])
p /= np.linalg.norm(p)
A0 = Exp_SO3_quat(p)
K = np.array([0.1, 0.2, 0.3])
r_OC = np.array([1.0, 2.0, 3.0])
q0 = np.concatenate([r_OC, p])
u0 = np.zeros(6)
body = RigidBody(2.0, np.diag([1.0, 2.0, 3.0]), q0=q0, u0=u0, name="body")
system = System()
system.add(body)
with contextlib.redirect_stdout(io.StringIO()):
    system.assemble()
t = 0.25
q = system.q0.copy()

r_before = body.r_OP(t, q).copy()
rK_before = body.r_OP(t, q, B_r_CP=K).copy()

# post-processing: displacement of the centre of mass w.r.t. a reference point
r = body.r_OP(t, q)
mutate(lambda: r.__isub__(np.array([1.0, 2.0, 0.0])))
report("body.r_OP(t, q) after 'r = body.r_OP(t, q); r -= r_ref'", r_before, body.r_OP(t, q))

# post-processing: scaled body axis for an arrow plot
ex = body.A_IB(t, q)[:, 0]
mutate(lambda: ex.__imul__(0.1))
report("body.r_OP(t, q, B_r_CP=K) after 'ex = A_IB[:, 0]; ex *= 0.1'", rK_before, body.r_OP(t, q, B_r_CP=K))
closed = np.hstack([np.eye(3), -A0 @ ax2skew(K)])
report("body.J_P(t, q, B_r_CP=K) vs. closed form [1, -A K~] after the same", closed, body.J_P(t, q, B_r_CP=K))

# ----------------------------------------------------------------------------
# 2) mixed Cosserat rod: director at a quadrature point
# ----------------------------------------------------------------------------
print("Cosserat rod")
nel = 2
cs = CircularCrossSection(0.05)
mat = Simo1986(np.array([5.0, 1.0, 1.0]) * 1e3, np.array([1.0, 2.0, 3.0]) * 1e1)
Rod = make_CosseratRod(interpolation="Quaternion", mixed=True, polynomial_degree=2)
Q = Rod.straight_configuration(nel, 1.0)
rod = Rod(cs, mat, nel, Q=Q, q0=Q.copy(), cross_section_inertias=CrossSectionInertias(10.0, cs))
sysr = System()
sysr.add(rod)
with contextlib.redirect_stdout(io.StringIO()):
    sysr.assemble()
rng = np.random.default_rng(0)
qr = sysr.q0 + 0.05 * rng.normal(size=sysr.nq)
xi = rod.qp[0, 0]  # first quadrature point: the same cache entry feeds W_c, la_c, ...
qe = qr[rod.qDOF][rod.local_qDOF_P(xi)]
Wc_before = sysr.W_c(0.0, qr).toarray()
rP_before = rod.r_OP(0.0, qe, xi, K).copy()
d1 = rod.A_IB(0.0, qe, xi)[:, 0]
mutate(lambda: d1.__imul__(0.1))  # scaled director for plotting
report("rod.r_OP(t, qe, xi, K) after 'd1 = rod.A_IB(..)[:, 0]; d1 *= 0.1'", rP_before, rod.r_OP(0.0, qe, xi, K))
report("system.W_c(t, q) after the same", Wc_before, sysr.W_c(0.0, qr).toarray())

N_before = np.array(rod.basis_functions_r(0.3)).copy()
N, N_xi = rod.basis_functions_r(0.3)
mutate(lambda: N.__imul__(2.0))
report("rod.basis_functions_r(0.3) after 'N *= 2'", N_before, np.array(rod.basis_functions_r(0.3)))
qe3 = qr[rod.qDOF][rod.local_qDOF_P(0.3)]
N_true = N_before[0]
r_true = sum(N_true[i] * qe3[rod.nodalDOF_element_r[i]] for i in range(3))
report("rod.r_OP(t, qe, 0.3) vs. interpolation with the true basis", r_true, rod.r_OP(0.0, qe3, 0.3))

# ----------------------------------------------------------------------------
# 3) sphere-sphere contact normal
# ----------------------------------------------------------------------------
print("Sphere2Sphere")
b1 = RigidBody(1.0, np.eye(3), q0=np.array([0, 0, 0, 1, 0, 0, 0.0]), name="b1")
b2 = RigidBody(1.0, np.eye(3), q0=np.array([1.0, 0.2, 0.1, 1, 0, 0, 0]), name="b2")
con = Sphere2Sphere(b1, b2, 0.4, 0.4, mu=0.3, name="contact")
sysc = System()
sysc.add(b1, b2, con)
with contextlib.redirect_stdout(io.StringIO()):
    sysc.assemble()
qc = sysc.q0.copy()
WN_before = sysc.W_N(0.5, qc).toarray()
WF_before = sysc.W_F(0.5, qc).toarray()
n = con.n(0.5, qc[con.qDOF])
mutate(lambda: n.__imul__(con.radius1))  # vector from centre to contact point
report("system.W_N(t, q) after 'n = contact.n(t, q); n *= radius'", WN_before, sysc.W_N(0.5, qc).toarray())
report("system.W_F(t, q) after the same", WF_before, sysc.W_F(0.5, qc).toarray())

print()
if failures:
    print(f"FAIL: {len(failures)} memoised evaluations changed after caller-side arithmetic on an earlier result")
    sys.exit(1)
print("OK")
sys.exit(0)
