"""C18 finding 1: a frictionless point mass bouncing into an acute wedge made of
two fixed planes (no applied forces, restitution 0.129 and 1.0, both <= 1)
GAINS kinetic energy in a single step of Moreau (and of DualStormerVerlet and
RATTLE, which use the same Newton-type law).

run:  cd /tmp/seed4/C18 && PYTHONPATH=/tmp/seed4/C18 /venv/bin/python /tmp/seed5/out/C18/1/demo.py
exit code 0 <=> the kinetic energy never increases from one stored step to the next
"""
import os, sys, io, contextlib, warnings

os.environ["TQDM_DISABLE"] = "1"
import numpy as np
import cardillo
from cardillo import System
from cardillo.discrete import PointMass, Frame
from cardillo.contacts import Sphere2Plane
from cardillo.solver import Moreau, Rattle, DualStormerVerlet, SolverOptions

print("cardillo.__file__ =", cardillo.__file__)

# ---------------------------------------------------------------- scene
m, R = 1.0, 0.1
e_floor, e_wall = 0.12906510087580447, 1.0
k = 0.7922853080321293  # -cos of the angle between the two plane normals
dt = 0.014418647534291127
nsteps = 14
q0 = np.array([0.507574, 0.0, 0.149629])
u0 = np.array([2.29324129063024, 0.0, -1.5155068479649771])


def build():
    s = np.sqrt(1 - k * k)
    n2 = np.array([-s, 0.0, -k])  # unit normal of the inclined wall (overhanging)
    t1 = np.array([0.0, 1.0, 0.0])
    t2 = np.cross(n2, t1)
    A2 = np.vstack([t1, t2, n2]).T  # proper rotation, e_z = n2
    assert np.allclose(A2.T @ A2, np.eye(3)) and np.linalg.det(A2) > 0
    floor = Frame(name="floor")  # z = 0, normal +z
    wall = Frame(r_OP=np.array([1.0, 0.0, 0.0]), A_IB=A2, name="wall")
    p = PointMass(m, q0=q0.copy(), u0=u0.copy(), name="p")
    c1 = Sphere2Plane(floor, p, mu=0.0, r=R, e_N=e_floor, name="floor_contact")
    c2 = Sphere2Plane(wall, p, mu=0.0, r=R, e_N=e_wall, name="wall_contact")
    system = System()
    system.add(floor, wall, p, c1, c2)
    with contextlib.redirect_stdout(io.StringIO()):
        system.assemble()
    return system


def simulate(name):
    system = build()
    with warnings.catch_warnings():
        warnings.simplefilter("ignore")
        if name == "Moreau":
            solver = Moreau(system, nsteps * dt, dt)
        elif name == "DualStormerVerlet":
            solver = DualStormerVerlet(
                system, nsteps * dt, dt, options=SolverOptions(),
                accelerated=False, linear_solver="LU",
            )
        else:
            solver = Rattle(system, nsteps * dt, dt)
        with contextlib.redirect_stdout(io.StringIO()):
            sol = solver.solve()
    return system, sol


bad = False
for name in ["Moreau", "DualStormerVerlet", "Rattle"]:
    try:
        system, sol = simulate(name)
    except Exception as exc:  # not expected
        print(f"{name}: solver raised {exc!r}")
        continue
    T = 0.5 * m * np.sum(sol.u**2, axis=1)
    dT = np.diff(T)
    i = int(np.argmax(dT))
    print(f"\n{name}: kinetic energy per stored step")
    print(np.array2string(T, precision=5))
    print(
        f"{name}: largest one-step change: step {i}->{i+1}: T = {T[i]:.6f} -> {T[i+1]:.6f} "
        f"(+{100 * dT[i] / T[i]:.1f} %),  P_N of that step = {sol.P_N[i+1]}"
    )
    if name == "Moreau":
        # data of the offending step, all evaluated like Moreau does (mid-point)
        tn, qn, un, un1 = sol.t[i], sol.q[i], sol.u[i], sol.u[i + 1]
        tm, qm = tn + 0.5 * dt, qn + 0.5 * dt * un
        print("  mid-point gaps g_N(q_{n+1/2})      =", system.g_N(tm, qm), "(both <= 0: both contacts closed)")
        print("  pre-impact  gap rates g_N_dot(u_n)   =", system.g_N_dot(tm, qm, un))
        print("  post-impact gap rates g_N_dot(u_n+1) =", system.g_N_dot(tm, qm, un1))
        print("  restitution                          =", system.e_N)
        print("  xi_N = post + e * pre                =", system.xi_N(tm, tm, qm, qm, un, un1))
        print("  -> the floor contact is closed but SEPARATING before the step (+0.29);")
        print("     the Newton law xi_N = 0 turns this into an APPROACHING post velocity")
        print("     -e*0.29 < 0 held by a positive percussion, which does positive work.")
    if np.any(dT > 1e-9 * max(T[0], 1e-300)):
        bad = True

if bad:
    print("\nFAIL: kinetic energy increased although there are no applied/gyroscopic forces,"
          " no friction and all restitution coefficients are <= 1")
    sys.exit(1)
print("\nOK: kinetic energy never increased")
sys.exit(0)
