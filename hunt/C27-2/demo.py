"""Sphere.prox with integer-typed data: radius * x is evaluated in int64 and wraps.

Sphere() has the integer default r = 1. If z and x are integer typed as well,
`radius * x / norm_x` multiplies two integers first; for radius * |x_i| > 2**63
the product wraps around silently and the returned point is neither on the ball
nor parallel to x. The same numbers as floats are handled correctly.
"""
import sys
import numpy as np
import cardillo
from cardillo.math.prox import Sphere

print("cardillo from", cardillo.__file__)

failures = 0
for x, r, z in [
    (np.array([3, 4]), 1, 1),  # small ints: fine
    (np.array([3 * 10**12, 4 * 10**12]), 1, 10**7),
    (np.array([3 * 10**12, 4 * 10**12]), 1, np.array([10**7])),
    (np.array([-5 * 10**11, 0, 12 * 10**11]), 2, 4 * 10**6),
]:
    p = np.asarray(Sphere(r).prox(x, z), dtype=float)
    ref = np.asarray(Sphere(float(r)).prox(x.astype(float), float(np.ravel(z)[0])), dtype=float)
    radius = float(r) * float(np.ravel(z)[0])
    err = np.max(np.abs(p - ref)) / radius
    ok = err < 1e-12 and np.linalg.norm(p) <= radius * (1 + 1e-12)
    print(f"x={x} r={r!r} z={z!r}\n    prox(int data)  ={p}\n    prox(float data)={ref}\n"
          f"    |prox|={np.linalg.norm(p):.6g} radius={radius:.6g} err/radius={err:.3g} -> {'ok' if ok else 'VIOLATION'}")
    failures += not ok
print("violations:", failures)
sys.exit(1 if failures else 0)
