"""C23 finding 3: Newton accepts load steps whose tip load is entirely unbalanced,
because the convergence test is a root-mean-square over ALL unknowns.

Thin polymer fibre in SI units (L = 0.1 m, d = 0.2 mm, E = 1 GPa -> EI = 7.85e-8 N m^2),
clamped, dead tip force 2.5e-5 N (about 2.5 mg), default SolverOptions
(newton_atol = newton_rtol = 1e-6).

Run as:  cd /tmp/seed4/C23 && PYTHONPATH=/tmp/seed4/C23 /venv/bin/python demo.py
"""
import sys, io, contextlib, warnings
import numpy as np
import cardillo
from cardillo import System
from cardillo.solver import Newton, SolverOptions
from cardillo.rods import RectangularCrossSection, Harsch2021
from cardillo.rods.cosseratRod import make_CosseratRod
from cardillo.constraints import RigidConnection
from cardillo.forces import Force

print("cardillo.__file__ =", cardillo.__file__)
L, EI, EA, GA, GJ = 0.1, 7.85e-8, 31.4, 12.0, 6.0e-8
Fmag = 2.5e-5


def build(interpolation, nel):
    Rod = make_CosseratRod(interpolation=interpolation, mixed=False)
    mat = Harsch2021(np.array([EA, GA, GA]), np.array([GJ, EI, EI]))
    cs = RectangularCrossSection(2e-4, 2e-4)
    q0 = Rod.straight_configuration(nel, L)
    rod = Rod(cs, mat, nel, Q=q0, q0=q0)
    system = System()
    system.add(rod, RigidConnection(system.origin, rod, xi2=(0,)))
    system.add(Force(lambda t: np.array([0.0, -Fmag * t, 0.0]), rod, (1,)))
    system.assemble(options=SolverOptions(compute_consistent_initial_conditions=False))
    return system, rod


def run(fct):
    buf = io.StringIO()
    with warnings.catch_warnings(record=True) as wl:
        warnings.simplefilter("always")
        with contextlib.redirect_stdout(buf), contextlib.redirect_stderr(buf):
            res = fct()
    return res, [str(w.message) for w in wl]


def max_residual(system, sol):
    u0 = np.zeros(system.nu)
    out = []
    for t, q, la_g in zip(sol.t, sol.q, sol.la_g):
        f = system.h(t, q, u0) + system.W_g(t, q, format="csr") @ la_g
        out.append(max(np.max(np.abs(f)), np.max(np.abs(system.g(t, q))), np.max(np.abs(system.g_S(t, q)))))
    return np.array(out)


opts = SolverOptions()
tol = opts.newton_atol + opts.newton_rtol * Fmag
print(f"per-equation tolerance atol + rtol*|F| = {tol:.3e}; tip load = {Fmag:.1e}")
print("interp      nel  unknowns n_load_steps returned  max|residual|  /tol   tip_y/L   warnings")
worst = 0.0
tips = {}
for interpolation in ["Quaternion", "SE3", "R12"]:
    for nel, nls in [(2, 1), (2, 10), (50, 1), (50, 10)]:
        system, rod = build(interpolation, nel)
        sol, wm = run(lambda: Newton(system, n_load_steps=nls, verbose=False, options=opts).solve())
        r = max_residual(system, sol)
        tip = rod.r_OP(0, sol.q[-1][rod.qDOF][rod.local_qDOF_P((1,))], (1,))
        n = system.nq + system.nla_g
        complete = len(sol.t) == nls + 1 and not wm
        print(
            f"{interpolation:10s} {nel:4d} {n:8d} {nls:8d} {len(sol.t):10d}   {r.max():.3e}  {r.max()/tol:6.1f}  {tip[1]/L:+.4f}   {wm}"
        )
        tips[(interpolation, nel, nls)] = tip[1] / L
        if complete:  # a run that claims to be complete and converged
            worst = max(worst, r.max() / tol)

# reference: the same 50-element problems with a tolerance far below the load
for interpolation in ["Quaternion", "R12"]:
    system, rod = build(interpolation, 50)
    tight = SolverOptions(newton_atol=1e-12, newton_rtol=1e-12, newton_max_iter=50)
    sol, wm = run(lambda: Newton(system, n_load_steps=10, verbose=False, options=tight).solve())
    r = max_residual(system, sol)
    tip = rod.r_OP(0, sol.q[-1][rod.qDOF][rod.local_qDOF_P((1,))], (1,))
    print(
        f"reference {interpolation}, 50 elements, 10 steps, atol=rtol=1e-12: returned {len(sol.t)} steps, "
        f"max|residual| {r.max():.2e}, tip_y/L = {tip[1]/L:+.4f}; default tolerances gave tip_y/L = {tips[(interpolation, 50, 10)]:+.4f}"
    )
if worst > 5.0:
    print(
        f"FAIL: load steps returned as converged (no warning, full length) have an equilibrium residual of {worst:.1f} x (atol + rtol*|F|); "
        "the whole tip load is unbalanced and the rod is returned undeformed"
    )
    sys.exit(1)
print("OK")
sys.exit(0)
