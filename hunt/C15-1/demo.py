"""C15 finding 1: a CooMatrix cannot be written to any more once it has been
converted with tocoo()/asformat("coo") (default copy=False) and the result is
still alive: the next block write raises BufferError.

Run:  cd /tmp/seed4/C15 && PYTHONPATH=/tmp/seed4/C15 /venv/bin/python /tmp/seed5/out/C15/1/demo.py
"""
import sys
import numpy as np
import scipy.sparse as sp
import cardillo
from cardillo.utility.coo_matrix import CooMatrix

print("cardillo.__file__ =", cardillo.__file__)

rng = np.random.default_rng(15)
failures = []

for fmt in ["csr", "csc", "array", "coo"]:
    m, n = 5, 4
    coo = CooMatrix((m, n))
    ref = np.zeros((m, n))
    kept = []  # converted matrices the caller keeps (e.g. to compare iterates)
    nwrites = 0
    try:
        for k in range(12):
            rows = rng.integers(0, m, size=rng.integers(1, 4))
            cols = rng.integers(0, n, size=rng.integers(1, 4))
            block = rng.integers(-3, 4, size=(len(rows), len(cols))).astype(float)
            value = [block, sp.csr_array(block), None][k % 3]
            if k % 3 == 2:
                inner = CooMatrix(block.shape)
                inner[:, :] = block
                value = inner
            coo[rows, cols] = value  # <- block write
            nwrites += 1
            np.add.at(ref, (rows[:, None], cols[None, :]), block)

            A = coo.asformat(fmt)  # <- conversion after every write
            kept.append(A)
            dense = A if fmt == "array" else A.toarray()
            if not np.array_equal(dense, ref):
                failures.append(f"format {fmt!r}: wrong matrix after write {k}")
                break
        else:
            print(f"format {fmt!r}: {nwrites} writes interleaved with conversions - OK")
    except BaseException as e:
        failures.append(
            f"format {fmt!r}: write no. {nwrites + 1} after a conversion raised "
            f"{type(e).__name__}: {e}"
        )

# minimal form
c = CooMatrix((2, 2))
c[0, 0] = 1.0
M = c.tocoo()
print("tocoo() result shares the container's buffer:",
      np.shares_memory(M.data, np.asarray(c.data)))
try:
    c[1, 1] = 2.0
    print("minimal: second write accepted ->", c.toarray().tolist())
except BaseException as e:
    failures.append(f"minimal: c[0,0]=1; M=c.tocoo(); c[1,1]=2 raised {type(e).__name__}: {e}")

if failures:
    print("\nVIOLATIONS:")
    for f in failures:
        print("  -", f)
    sys.exit(1)
print("no violation")
sys.exit(0)
