"""C01 finding 3: Exp_SO3_quat / T_SO3_quat normalise by dividing through the
squared length `P @ P` computed in the working precision.  For representable
nonzero quaternions with |P| <~ 1.5e-154 the squared length is subnormal (few
significant bits) or 0, for |P| >~ 1.3e154 it is inf:
  * 1e-162 < |P| < 1e-155 : finite but NOT orthonormal rotation matrix
    (error up to 1e-3), scale invariance lost, T @ T_inv != I  - no NaN, and
    numpy does not warn about underflow
  * |P| < 1e-162 or |P| > 1.3e154 : NaN rotation matrix
  * |P| > 1.3e154 : T_SO3_quat == 0, so T @ T_inv == 0 instead of I (finite!)
The composition clause breaks earlier: quatprod(P, Q) of two quaternions of
length 1e80 has length 1e160.

Run:  cd /tmp/seed4/C01 && PYTHONPATH=/tmp/seed4/C01 /venv/bin/python /tmp/seed5/out/C01/3/demo.py
"""
import sys
import numpy as np
import cardillo
from cardillo.math.rotations import (
    Exp_SO3_quat,
    T_SO3_quat,
    T_SO3_inv_quat,
    quatprod,
)

print("cardillo.__file__ =", cardillo.__file__)
np.seterr(all="ignore")

eye3 = np.eye(3)
P0 = np.array([0.3, -0.5, 0.7, 0.2])
Q0 = np.array([-0.6, 0.1, 0.4, 0.9])
A0 = Exp_SO3_quat(P0)
assert np.abs(A0.T @ A0 - eye3).max() < 1e-14

tol = 1e-12
fail = False


def chk(label, err):
    global fail
    bad = not (np.isfinite(err) and err < tol)
    fail |= bad
    return "%s=%.3e%s" % (label, err, " (!)" if bad else "")


print("scaling by exact powers of two, P = 2**k * P0 (no rounding in P):")
for k in [-1015, -560, -532, -528, -522, -516, -500, 0, 500, 512, 515, 700, 1020]:
    s = 2.0**k
    P = s * P0
    assert np.all(P != 0) and np.all(np.isfinite(P))
    A = Exp_SO3_quat(P)
    T = T_SO3_quat(P)
    Ti = T_SO3_inv_quat(P)
    print(
        "  max|P_i| = %9.2e : " % np.abs(P).max(),
        chk("orth", np.abs(A.T @ A - eye3).max()),
        chk("det-1", abs(np.linalg.det(A) - 1.0)),
        chk("A(sP)-A(P)", np.abs(A - A0).max()),
        chk("T@Tinv-I", np.abs(T @ Ti - eye3).max()),
    )

print("composition: A(P*Q) = A(P) A(Q) with |P| = |Q| ~ 1e80 (both far from overflow):")
P = 2.0**266 * P0
Q = 2.0**266 * Q0
err = np.abs(Exp_SO3_quat(quatprod(P, Q)) - Exp_SO3_quat(P) @ Exp_SO3_quat(Q)).max()
print("  ", chk("A(PQ)-A(P)A(Q)", err))
P = 2.0**-266 * P0
Q = 2.0**-266 * Q0
err = np.abs(Exp_SO3_quat(quatprod(P, Q)) - Exp_SO3_quat(P) @ Exp_SO3_quat(Q)).max()
print("  ", chk("A(PQ)-A(P)A(Q) (|P|=|Q|~1e-80)", err))

if fail:
    print("\nFAIL: rotation matrix / tangent maps are not exact for all nonzero P")
    sys.exit(1)
print("\nOK")
sys.exit(0)
