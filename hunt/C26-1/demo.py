"""C26 / finding 1

Reference-strain update (CosseratRod.set_reference_strains) leaves the rod's
memoised matrices stale: the mass matrix M (built from J_dyn), the compliance
matrix c_la_c (built from J) and the element inverses used by la_c() are
computed once in assembler_callback and are returned unchanged after the
reference configuration (and with it J, J_dyn) has been replaced.

Oracle: evaluation without memoisation = assemble the same element matrices
(rod.M_el, rod.c_la_c_el) now / differentiate rod.c w.r.t. la_c (c is affine in
la_c) / solve c(q, la_c) = 0 with the current compliance.

Run:  cd /tmp/seed4/C26 && PYTHONPATH=/tmp/seed4/C26 /venv/bin/python /tmp/seed5/out/C26/1/demo.py
"""
import contextlib
import io
import sys
import warnings

import numpy as np

import cardillo
from cardillo import System
from cardillo.rods import CircularCrossSection, CrossSectionInertias, Simo1986
from cardillo.rods.cosseratRod import make_CosseratRod

print("cardillo.__file__ =", cardillo.__file__)
warnings.simplefilter("ignore")

nel = 2
cs = CircularCrossSection(0.05)
mat = Simo1986(np.array([5.0, 1.0, 1.0]) * 1e3, np.array([1.0, 2.0, 3.0]) * 1e1)
Rod = make_CosseratRod(interpolation="Quaternion", mixed=True, polynomial_degree=2)
Q = Rod.straight_configuration(nel, 1.0)
rod = Rod(cs, mat, nel, Q=Q, q0=Q.copy(), cross_section_inertias=CrossSectionInertias(10.0, cs))
system = System()
system.add(rod)
with contextlib.redirect_stdout(io.StringIO()):
    system.assemble()

rng = np.random.default_rng(0)
t = 0.0
q = system.q0 + 0.05 * rng.normal(size=system.nq)
u = np.zeros(system.nu)


def fresh_M():
    M = np.zeros((rod.nu, rod.nu))
    for el in range(rod.nelement):
        M[np.ix_(rod.elDOF_u[el], rod.elDOF_u[el])] += rod.M_el(el)
    return M


def fresh_c_la_c():
    C = np.zeros((rod.nla_c, rod.nla_c))
    for el in range(rod.nelement):
        C[np.ix_(rod.elDOF_la_c[el], rod.elDOF_la_c[el])] += rod.c_la_c_el(el)
    return C


def check(label):
    """relative deviations memoised vs. non-memoised"""
    M_memo = rod.M(t, q[rod.qDOF]).toarray()
    M_ref = fresh_M()
    C_memo = rod.c_la_c().toarray()
    C_ref = fresh_c_la_c()
    # c is affine in la_c: dc/dla_c by differences is exact up to rounding
    c0 = rod.c(t, q, u, np.zeros(rod.nla_c))
    C_fd = np.array([rod.c(t, q, u, e) - c0 for e in np.eye(rod.nla_c)]).T
    la_memo = rod.la_c(t, q, u)
    la_ref = -np.linalg.solve(C_fd, c0)
    res = rod.c(t, q, u, la_memo)
    out = dict(
        M=np.max(np.abs(M_memo - M_ref)) / np.max(np.abs(M_ref)),
        c_la_c=np.max(np.abs(C_memo - C_ref)) / np.max(np.abs(C_ref)),
        c_la_c_vs_dc=np.max(np.abs(C_memo - C_fd)) / np.max(np.abs(C_fd)),
        la_c=np.max(np.abs(la_memo - la_ref)) / np.max(np.abs(la_ref)),
        residual_c_of_la_c=np.max(np.abs(res)) / np.max(np.abs(c0)),
    )
    print(f"[{label}]")
    for k, v in out.items():
        print(f"    rel. deviation {k:20s} = {v:.3e}")
    return max(out.values())


tol = 1e-10
d0 = check("after assemble (control)")

# reference-strain update: same rod, stress-free length 2 instead of 1
Q2 = Rod.straight_configuration(nel, 2.0)
rod.set_reference_strains(Q2)
print("J after update:", rod.J[0], " J_dyn:", rod.J_dyn[0, :2], "...")
d1 = check("after rod.set_reference_strains(Q2), no re-assembly")

# what the system hands to the solvers
Msys = system.M(t, q).toarray()
print("    system.M   rel. deviation =", np.max(np.abs(Msys - fresh_M())) / np.max(np.abs(fresh_M())))
print("    system.c_la_c rel. deviation =",
      np.max(np.abs(system.c_la_c().toarray() - fresh_c_la_c())) / np.max(np.abs(fresh_c_la_c())))

with contextlib.redirect_stdout(io.StringIO()):
    system.assemble()
d2 = check("after re-assembly (control)")

if d0 > tol or d2 > tol:
    print("harness problem: controls deviate")
    sys.exit(2)
if d1 > tol:
    print(f"FAIL: memoised rod matrices are stale after the reference-strain update (max rel. deviation {d1:.3e})")
    sys.exit(1)
print("OK")
sys.exit(0)
