"""C03 finding 1: Log_SO3_A / Log_SE3_H are not the derivative of Log_SO3 / Log_SE3
for rotation vectors close to (but below) a half turn, 3.0 < |psi| < pi.

Run as
    cd /tmp/seed4/C03 && PYTHONPATH=/tmp/seed4/C03 /venv/bin/python /tmp/seed5/out/C03/1/demo.py

Oracle (independent of any extension of Log off the manifold SO(3)):
    Log_SO3(Exp_SO3(psi)) = psi  for |psi| < pi, hence by the chain rule
    sum_jk Log_SO3_A(A)[i, j, k] * dExp_SO3(psi)[j, k, l] = delta_il ,  A = Exp_SO3(psi)
and in the same way Log_SE3_H(H) : dExp_SE3(h) = eye(6).  dExp is evaluated here
analytically in extended precision (closed forms, no cancellation at these angles).
"""
import sys
import numpy as np
import cardillo
from cardillo.math.rotations import (
    Exp_SO3, Log_SO3, Log_SO3_A, Exp_SE3, Log_SE3, Log_SE3_H, T_SO3_inv,
)

print("cardillo loaded from", cardillo.__file__)
LD = np.longdouble
TOL = 1.0e-6


def skew(p):
    return np.array([[0, -p[2], p[1]], [p[2], 0, -p[0]], [-p[1], p[0], 0]], dtype=LD)


def dskew(k):
    e = np.zeros(3, dtype=LD)
    e[k] = 1
    return skew(e)


def exact_maps(psi, r):
    """Exp_SO3, T_SO3 and their psi-derivatives in extended precision (|psi| >= 1)."""
    psi = np.asarray(psi, dtype=LD)
    r = np.asarray(r, dtype=LD)
    a2 = psi @ psi
    a = np.sqrt(a2)
    sa, ca = np.sin(a), np.cos(a)
    al = sa / a
    b2 = (1 - ca) / a2
    c = (1 - al) / a2
    # d/da of the coefficients, divided by a
    al_p = (ca - al) / a2
    b2_p = (al - 2 * b2) / a2
    c_p = (-al_p - 2 * c) / a2
    S = skew(psi)
    S2 = S @ S
    I = np.eye(3, dtype=LD)
    A = I + al * S + b2 * S2
    T = I - b2 * S + c * S2
    A_psi = np.zeros((3, 3, 3), dtype=LD)
    T_psi = np.zeros((3, 3, 3), dtype=LD)
    for k in range(3):
        Sk = dskew(k)
        S2k = Sk @ S + S @ Sk
        A_psi[:, :, k] = al_p * psi[k] * S + al * Sk + b2_p * psi[k] * S2 + b2 * S2k
        T_psi[:, :, k] = -b2_p * psi[k] * S - b2 * Sk + c_p * psi[k] * S2 + c * S2k
    H_h = np.zeros((4, 4, 6), dtype=LD)
    H_h[:3, :3, 3:] = A_psi
    H_h[:3, 3, :3] = T.T
    H_h[:3, 3, 3:] = np.einsum("l,lik->ik", r, T_psi)
    return A, A_psi, H_h


def Log_SO3_A_repaired(A):
    """suggested repair: dpsi = T_SO3_inv(psi) @ axial(A^T dA), bounded for all |psi| < 2 pi"""
    psi = Log_SO3(A)
    Tinv = T_SO3_inv(psi)
    out = np.zeros((3, 3, 3))
    for m in range(3):
        for p in range(3):
            for q in range(3):
                eps = (p - q) * (q - m) * (m - p) // 2
                if eps:
                    # d axial(A^T dA)_m / dA_jq = -0.5 * eps_pqm * A_jp
                    out[:, :, q] += np.outer(Tinv[:, m], -0.5 * eps * A[:, p])
    return out


def fd9_of_Log_SO3(A, h=1e-7):
    """what test/test_rotations.py does: difference quotient of Log_SO3 w.r.t. the 9 entries"""
    out = np.zeros((3, 3, 3))
    for j in range(3):
        for k in range(3):
            E = np.zeros((3, 3))
            E[j, k] = h
            out[:, j, k] = (Log_SO3(A + E) - Log_SO3(A - E)) / (2 * h)
    return out


rng = np.random.default_rng(20260922)
bad = 0
print("\n   |psi|          pi-|psi|  |Log(Exp(psi))-psi|  max|Log_SO3_A|  "
      "chain err Log_SO3_A  chain err Log_SE3_H  chain err bounded formula  |Log_SO3_A - FD9(Log_SO3)|")
for gap in [1.0, 0.2, 0.14, 0.1, 1e-2, 1e-3, 1e-4, 1e-5, 1e-6, 1e-7, 1e-8, 1e-9]:
    a = np.pi - gap
    n = rng.normal(size=3)
    n /= np.linalg.norm(n)
    psi = a * n
    r = rng.normal(size=3)
    h = np.concatenate([r, psi])
    A_ex, A_psi_ex, H_h_ex = exact_maps(psi, r)

    A = Exp_SO3(psi)
    H = Exp_SE3(h)
    assert np.abs(A - A_ex).max() < 1e-14
    e_log = np.abs(Log_SO3(A) - psi).max()
    e_logse3 = np.abs(Log_SE3(H) - h).max()

    LA = Log_SO3_A(A)
    LH = Log_SE3_H(H)
    chain_so3 = np.einsum("ijk,jkl->il", LA.astype(LD), A_psi_ex)
    chain_se3 = np.einsum("ijk,jkl->il", LH.astype(LD), H_h_ex)
    err_so3 = float(np.abs(chain_so3 - np.eye(3)).max())
    err_se3 = float(np.abs(chain_se3 - np.eye(6)).max())

    # reference 1: the same identity is satisfied to rounding by a bounded formula
    Rp = Log_SO3_A_repaired(A)
    err_rep = float(np.abs(np.einsum("ijk,jkl->il", Rp.astype(LD), A_psi_ex) - np.eye(3)).max())
    # reference 2 (information only): difference quotient of the implemented Log_SO3
    # w.r.t. all 9 matrix entries, as in test/test_rotations.py::test_Log_SO3_A
    if gap >= 1e-3:
        F = fd9_of_Log_SO3(A, h=1e-7)
        d9 = "%.3e" % np.abs(LA - F).max()
    else:
        d9 = "n/a"

    flag = ""
    if not (err_so3 < TOL and err_se3 < TOL):
        bad += 1
        flag = "  <-- VIOLATION"
    print(f"{a:.12f}  {gap:8.1e}  {max(e_log, e_logse3):12.2e}  {np.abs(LA).max():18.3e}  "
          f"{err_so3:16.3e}  {err_se3:19.3e}  {err_rep:20.3e}  {d9:>20s}{flag}")

print(f"\ntolerance on the chain-rule identity: {TOL:g}")
if bad:
    print(f"FAIL: {bad} rotation vectors with |psi| < pi for which Log_SO3_A / Log_SE3_H "
          "contracted with the exact derivative of Exp is not the identity")
    sys.exit(1)
print("OK")
sys.exit(0)
