"""C20 finding 1: a Solution of any system that contains a Cosserat rod can be
saved but not loaded again (save_solution / load_solution round trip fails).

Run:  cd /tmp/seed4/C20 && PYTHONPATH=/tmp/seed4/C20 /venv/bin/python /tmp/seed5/out/C20/1/demo.py
Exit code 0 iff every field survives save -> load for all solutions below.
"""
import contextlib, io, os, sys, tempfile, traceback, warnings
import numpy as np

import cardillo
from cardillo import System
from cardillo.rods import RectangularCrossSection, Simo1986, CrossSectionInertias
from cardillo.rods.cosseratRod import make_CosseratRod
from cardillo.constraints import RigidConnection
from cardillo.forces import Force
from cardillo.math import e2
from cardillo.solver import Newton, Moreau, SolverOptions, load_solution

print("cardillo.__file__ =", cardillo.__file__)
import dill, cachetools
print("dill", dill.__version__, "| cachetools", cachetools.__version__)
warnings.simplefilter("ignore")


def rod_system(interpolation, mixed, dynamic):
    Rod = make_CosseratRod(interpolation=interpolation, mixed=mixed)
    cs = RectangularCrossSection(0.05, 0.05)
    mat = Simo1986(np.array([5.0, 1.0, 1.0]) * 1e2, np.array([0.5, 2.0, 2.0]) * 1e1)
    system = System()
    q0 = Rod.straight_configuration(2, 1.0)
    kw = dict(cross_section_inertias=CrossSectionInertias(1000.0, cs)) if dynamic else {}
    rod = Rod(cs, mat, 2, Q=q0, q0=q0, **kw)
    system.add(rod, RigidConnection(system.origin, rod, xi2=(0,)))
    system.add(Force(lambda t: -0.5 * t * e2, rod, (1,)))
    system.assemble(options=SolverOptions(compute_consistent_initial_conditions=dynamic))
    return system


def quiet(f):
    with contextlib.redirect_stdout(io.StringIO()), contextlib.redirect_stderr(io.StringIO()):
        return f()


def fields(sol):
    return {k: v for k, v in sol.__dict__.items() if k not in ("system", "solver_summary")}


failures = 0
tmp = tempfile.mkdtemp(prefix="tmp_", dir=os.path.dirname(os.path.abspath(__file__)))
cases = [
    ("Newton (static)", "Quaternion", False, False, lambda s: Newton(s, n_load_steps=2, verbose=False).solve()),
    ("Newton (static)", "SE3", True, False, lambda s: Newton(s, n_load_steps=2, verbose=False).solve()),
    ("Moreau", "Quaternion", False, True, lambda s: Moreau(s, 2e-3, 1e-3).solve()),
]
for name, interp, mixed, dynamic, run in cases:
    system = rod_system(interp, mixed, dynamic)
    sol = quiet(lambda: run(system))
    fn = os.path.join(tmp, "sol.pkl")
    label = f"{name:16s} rod interpolation={interp:10s} mixed={mixed!s:5s} nt={len(sol.t)} q{sol.q.shape}"
    try:
        sol.save(fn)
        print(f"{label}: saved {os.path.getsize(fn)} bytes")
        sol2 = load_solution(fn)
    except Exception as e:
        failures += 1
        last = traceback.extract_tb(e.__traceback__)[-1]
        print(f"{label}: ROUND TRIP FAILED -> {type(e).__name__}: {e}  (raised in {last.filename}:{last.lineno} {last.name})")
        continue
    bad = []
    f1, f2 = fields(sol), fields(sol2)
    for k, v in f1.items():
        w = f2.get(k, "missing")
        if v is None:
            ok = w is None
        else:
            ok = isinstance(w, np.ndarray) and np.array_equal(v, w)
        if not ok:
            bad.append(k)
    if bad:
        failures += 1
        print(f"{label}: fields not preserved: {bad}")
    else:
        print(f"{label}: all fields preserved")

# control: the same round trip works for a system without a rod
from cardillo.discrete import PointMass
s = System(); pm = PointMass(1.0, q0=np.zeros(3), u0=np.ones(3), name="pm"); s.add(pm); s.assemble()
sol = quiet(lambda: Moreau(s, 2e-3, 1e-3).solve())
fn = os.path.join(tmp, "ctrl.pkl"); sol.save(fn); sol2 = load_solution(fn)
print("control (point mass, Moreau): q preserved =", np.array_equal(sol.q, sol2.q))

print(f"\n{failures} of {len(cases)} rod solutions could not be restored")
import shutil; shutil.rmtree(tmp, ignore_errors=True)
sys.exit(1 if failures else 0)
