"""C14 / finding 3: System.g / g_N / g_S (and the in-place System.step_callback) inherit the dtype of q.
If all bodies were given integer-valued initial coordinates (q0=[0, 0, 1]), System.assemble builds an
int64 system.q0 and the assembled gaps/constraints are truncated to integers.

Run:  cd /tmp/seed4/C14 && PYTHONPATH=/tmp/seed4/C14 /venv/bin/python /tmp/seed5/out/C14/3/demo.py
"""
import sys, io, contextlib
import numpy as np
import cardillo

print("cardillo.__file__ =", cardillo.__file__)

from cardillo import System
from cardillo.discrete import PointMass, RigidBody
from cardillo.constraints import FixedDistance
from cardillo.contacts import Sphere2Plane
from cardillo.forces import Force


def quiet(f, *args, **kwargs):
    with contextlib.redirect_stdout(io.StringIO()):
        return f(*args, **kwargs)


failures = 0


def ball(q0):
    """ball of radius 0.5 with centre 1 above the plane z=0, weight 10 -> gap 0.5, free fall"""
    system = System()
    pm = PointMass(1.0, q0=q0, name="ball")
    contact = Sphere2Plane(system.origin, pm, mu=0.3, r=0.5, name="contact")
    weight = Force(np.array([0, 0, -10.0]), pm, name="weight")
    system.add(pm, contact, weight)
    quiet(system.assemble)
    return system, pm, contact


print("\n(a) normal gap and consistent initial conditions")
for label, q0 in [("q0=[0, 0, 1]     (ints)  ", [0, 0, 1]), ("q0=[0., 0., 1.]  (floats)", [0.0, 0.0, 1.0])]:
    system, pm, contact = ball(q0)
    g_sys = system.g_N(system.t0, system.q0)
    g_loc = contact.g_N(system.t0, system.q0[contact.qDOF])
    print(f"  {label}: system.q0.dtype={system.q0.dtype}  contact.g_N={np.asarray(g_loc)}  "
          f"system.g_N={g_sys}  la_N0={system.la_N0}  u_dot0={system.u_dot0}")
    if not np.allclose(g_sys, g_loc):
        failures += 1
        print("     -> system.g_N differs from the contribution's own gap")
    if not np.allclose(system.la_N0, 0.0) or not np.allclose(system.u_dot0, [0, 0, -10.0]):
        failures += 1
        print("     -> assemble() reports a contact force for a ball hovering 0.5 above the plane")

print("\n(b) bilateral constraint evaluated at an integer-valued configuration")
system = System()
p = PointMass(1.0, q0=[1.0, 0.0, 0.0], name="p")
rod = FixedDistance(system.origin, p, B1_r_P1J1=np.array([0.3, 0.0, 0.0]))  # distance 0.7
system.add(p, rod)
quiet(system.assemble)
for q in [np.array([2, 0, 0]), np.array([2.0, 0.0, 0.0])]:
    g_loc = rod.g(0.0, q[rod.qDOF])
    g_sys = system.g(0.0, q)
    print(f"  q={q} ({q.dtype}): FixedDistance.g={g_loc:.4f}  system.g={g_sys}")
    if not np.allclose(g_sys, g_loc):
        failures += 1
        print("     -> system.g differs from the contribution's own constraint value")

print("\n(c) non-unit integer quaternion (documented: 'handles non-unit quaternions', normalised by step_callback)")
for label, q0 in [("ints  ", np.array([0, 0, 1, 1, 1, 0, 0])), ("floats", np.array([0, 0, 1, 1, 1, 0, 0.0]))]:
    system = System()
    rb = RigidBody(1.0, np.eye(3), q0=q0, name="rb")
    system.add(rb)
    try:
        quiet(system.assemble)
        print(f"  {label}: assemble ok, system.q0 = {system.q0}")
    except AssertionError as e:
        failures += 1
        print(f"  {label}: assemble raises AssertionError('{e}'), system.q0 = {system.q0} "
              "(normalised quaternion truncated to 0 by the in-place write into the int array)")

print("\nfailures:", failures)
sys.exit(1 if failures else 0)
