"""C05 finding 3: a Spherical joint with a PointMass partner silently drops the joint placement
r_OJ0 on the point-mass side, so the joint is NOT satisfied in the configuration in which it
was defined.

PositionOrientationBase.assembler_callback: a subsystem without A_IB (PointMass) gets
B_r_PJ0 = zeros(3) whatever r_OJ0 is, although PointMass.r_OP(t, q, xi, B_r_CP) supports a
(translating, A_IB = I) offset and FixedDistance honours such offsets.

run:  cd /tmp/seed4/C05 && PYTHONPATH=/tmp/seed4/C05 /venv/bin/python demo.py
"""
import sys, warnings
import numpy as np

warnings.filterwarnings("ignore")
import cardillo

print("cardillo:", cardillo.__file__)
from cardillo import System
from cardillo.discrete import Frame, RigidBody, PointMass
from cardillo.constraints import Spherical, FixedDistance
from cardillo.solver import SolverOptions

t0 = 0.4


def mk(kind, name):
    if kind == "PointMass":
        return PointMass(1.0, q0=np.array([1.0, 0.5, -0.2]) if name == "s1" else np.array([-0.3, 0.2, 0.9]), name=name)
    if kind == "RigidBody":
        p = np.array([0.8, 0.1, -0.5, 0.3])
        return RigidBody(1.0, np.eye(3), q0=np.concatenate([[0.2, -0.4, 0.6], p]), name=name)
    if kind == "Frame":
        return Frame(
            r_OP=lambda t: np.array([np.sin(t), 0.3, t]),
            r_OP_t=lambda t: np.array([np.cos(t), 0.0, 1.0]),
            r_OP_tt=lambda t: np.array([-np.sin(t), 0.0, 0.0]),
            name=name,
        )


r_OJ0 = np.array([0.25, 0.1, 0.35])  # joint placement, not coincident with any body point
fail = False
print("pairing                    |g(t0, q0)|  (Spherical, r_OJ0 given)      control: FixedDistance with offsets")
for k1, k2 in [("PointMass", "RigidBody"), ("RigidBody", "PointMass"), ("Frame", "PointMass"),
               ("PointMass", "Frame"), ("PointMass", "PointMass"), ("RigidBody", "RigidBody")]:
    s1, s2 = mk(k1, "s1"), mk(k2, "s2")
    j = Spherical(s1, s2, r_OJ0=r_OJ0)
    fd = FixedDistance(s1, s2, B1_r_P1J1=np.array([0.1, 0.2, 0.3]), B2_r_P2J2=np.array([-0.2, 0.1, 0.0]))
    system = System(t0=t0)
    system.add(s1, s2, j, fd)
    system.assemble(options=SolverOptions(compute_consistent_initial_conditions=False))
    g0 = system.g(system.t0, system.q0)
    gj = np.max(np.abs(g0[j.la_gDOF]))
    gfd = np.max(np.abs(g0[fd.la_gDOF]))
    bad = gj > 1e-12 or gfd > 1e-12
    fail |= bad
    print(f"{k1:10s} - {k2:10s}     {gj:.3e}                                  {gfd:.3e}" + ("   <-- VIOLATION" if bad else ""))

if fail:
    print("\nFAIL: Spherical joints involving a PointMass are violated in their defining configuration "
          "(the placement r_OJ0 is ignored on the PointMass side).")
    sys.exit(1)
print("OK")
