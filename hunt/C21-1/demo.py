"""C21 finding 1: ScipyIVP and ScipyDAE silently ignore set-valued friction when the
system has friction forces (nla_F > 0) but no normal contacts (nla_N == 0), i.e.
friction with a constant force reservoir (same modelling pattern as
examples/friction_belt/friction_belt.py).

Run:  cd /tmp/seed4/C21 && PYTHONPATH=/tmp/seed4/C21 /venv/bin/python /tmp/seed5/out/C21/1/demo.py
Exit 0: every solver either treats the friction, or warns / raises about it.
Exit 1: a solver returned a friction-free trajectory without any message.
"""
import contextlib
import io
import re
import sys
import warnings

import numpy as np

import cardillo
from cardillo import System
from cardillo.math.prox import Sphere as Ball
from cardillo.solver import Moreau, ScipyIVP, ScipyDAE

print("cardillo.__file__ =", cardillo.__file__)

MU, G, U0 = 0.5, 10.0, 1.0  # block stops at t = U0/(MU*G) = 0.2 after x = 0.1


class Block:
    """Unit mass sliding on rough ground. Constant normal force m*g, Coulomb
    friction with constant force reservoir mu*m*g (friction law without normal
    force dependence: i_N = [])."""

    def __init__(self):
        self.nq = 1
        self.nu = 1
        self.q0 = np.array([0.0])
        self.u0 = np.array([U0])
        self.friction_laws = [([], [0], Ball(MU * G))]
        self.nla_F = 1
        self.e_F = np.zeros(1)

    def q_dot(self, t, q, u):
        return u

    def q_dot_q(self, t, q, u):
        return np.zeros((1, 1))

    def q_dot_u(self, t, q):
        return np.eye(1)

    def M(self, t, q):
        return np.eye(1)

    def h(self, t, q, u):
        return np.zeros(1)

    def h_q(self, t, q, u):
        return np.zeros((1, 1))

    def h_u(self, t, q, u):
        return np.zeros((1, 1))

    def gamma_F(self, t, q, u):
        return np.array([u[0]])

    def gamma_F_q(self, t, q, u):
        return np.zeros((1, 1))

    def gamma_F_u(self, t, q):
        return np.eye(1)

    def gamma_F_dot(self, t, q, u, u_dot):
        return np.array([u_dot[0]])

    def W_F(self, t, q):
        return np.eye(1)

    def Wla_F_q(self, t, q, la_F):
        return np.zeros((1, 1))

    def xi_F(self, t_pre, t_post, q_pre, q_post, u_pre, u_post):
        return self.gamma_F(t_post, q_post, u_post) + self.e_F * self.gamma_F(
            t_pre, q_pre, u_pre
        )


def make_system():
    system = System()
    system.add(Block())
    with contextlib.redirect_stdout(io.StringIO()):
        system.assemble()
    return system


def run(solver_cls, **kwargs):
    system = make_system()
    sol, exc = None, None
    with warnings.catch_warnings(record=True) as w:
        warnings.simplefilter("always")
        try:
            with contextlib.redirect_stdout(io.StringIO()), contextlib.redirect_stderr(
                io.StringIO()
            ):
                sol = solver_cls(system, 1.0, 1e-2, **kwargs).solve()
        except Exception as e:  # raising is an acceptable reaction
            exc = e
    return system, sol, [str(x.message) for x in w], exc


x_exact, u_exact = U0**2 / (2 * MU * G), 0.0
print(f"exact end state with friction: x = {x_exact}, u = {u_exact}")
print(f"end state if friction is dropped: x = {U0 * 1.0}, u = {U0}")

system, sol, w, exc = run(Moreau)
print(
    f"reference Moreau: nla_N = {system.nla_N}, nla_F = {system.nla_F}, "
    f"constant_force_reservoir = {system.constant_force_reservoir}, "
    f"x(1) = {sol.q[-1, 0]:.6f}, u(1) = {sol.u[-1, 0]:.6f}"
)

pattern = re.compile(r"friction|contact|nla_F|set-valued|ignor|cannot treat", re.I)
bad = []
for cls in (ScipyIVP, ScipyDAE):
    system, sol, w, exc = run(cls)
    told = [m for m in w if pattern.search(m)]
    if exc is not None:
        print(f"{cls.__name__}: raised {exc!r}  -> not silent, OK")
        continue
    x1, u1 = sol.q[-1, 0], sol.u[-1, 0]
    treated = abs(x1 - x_exact) < 0.02 and abs(u1 - u_exact) < 0.02
    print(
        f"{cls.__name__}: x(1) = {x1:.6f}, u(1) = {u1:.6f}, "
        f"all warnings = {w}, friction treated = {treated}"
    )
    if not treated and not told:
        bad.append(cls.__name__)
        print(
            f"  -> {cls.__name__} dropped the friction force (error in x: "
            f"{abs(x1 - x_exact):.3f}, in u: {abs(u1 - u_exact):.3f}) without any warning or error"
        )

if bad:
    print("FAIL: silently ignored friction:", bad)
    sys.exit(1)
print("PASS")
sys.exit(0)
