"""C03 finding 3: derivative routines that allocate their result with dtype=<argument>.dtype silently
truncate the derivative to integers when the (perfectly valid) argument is an integer array, e.g.
psi = np.array([0, 0, 1]) (rotation by 1 rad about e_z) or the exact quarter-turn matrix
[[0,-1,0],[1,0,0],[0,0,1]].  The maps themselves (Exp_SO3, T_SO3_inv, Log_SO3, Log_SE3) accept these
arguments and return the correct float result, the derivatives Exp_SO3_psi, T_SO3_inv_psi, Log_SO3_A,
Exp_SE3_h, Log_SE3_H return int64 arrays that are wrong by O(1).

Run as
    cd /tmp/seed4/C03 && PYTHONPATH=/tmp/seed4/C03 /venv/bin/python /tmp/seed5/out/C03/3/demo.py

Oracle: central difference quotient (step 1e-6) of the map itself, evaluated around the very same
argument; T_SO3_psi (which allocates dtype=float) serves as a control.
"""
import sys
import numpy as np
import cardillo
from cardillo.math.rotations import (
    Exp_SO3, Exp_SO3_psi, T_SO3, T_SO3_psi, T_SO3_inv, T_SO3_inv_psi, T_SO3_dot,
    Log_SO3, Log_SO3_A, Exp_SE3, Exp_SE3_h, Log_SE3, Log_SE3_H,
)

print("cardillo loaded from", cardillo.__file__)
TOL = 1.0e-6


def fd(f, x, h=1e-6):
    """difference quotient of f w.r.t. all entries of x (x keeps its value, perturbation is float)"""
    xf = np.asarray(x, dtype=float)
    f0 = np.asarray(f(xf))
    out = np.zeros(f0.shape + xf.shape)
    for idx in np.ndindex(xf.shape):
        e = np.zeros(xf.shape)
        e[idx] = h
        out[(Ellipsis,) + idx] = (f(xf + e) - f(xf - e)) / (2 * h)
    return out


psi = np.array([0, 0, 1])                                   # 1 rad about e_z
A = np.array([[0, -1, 0], [1, 0, 0], [0, 0, 1]])            # exact quarter turn about e_z
h = np.array([1, 2, 3, 0, 0, 1])                            # r = (1,2,3), psi = e_z
H = np.array([[0, -1, 0, 1], [1, 0, 0, 2], [0, 0, 1, 3], [0, 0, 0, 1]])

# maps at the integer arguments are fine (except Exp_SE3, see below)
print("\nmaps evaluated at the integer arguments vs. float arguments:")
for name, f, x in [("Exp_SO3", Exp_SO3, psi), ("T_SO3", T_SO3, psi), ("T_SO3_inv", T_SO3_inv, psi),
                   ("Log_SO3", Log_SO3, A), ("Log_SE3", Log_SE3, H), ("Exp_SE3", Exp_SE3, h)]:
    v = f(x)
    print(f"  {name:10s} dtype {str(v.dtype):8s} |f(int) - f(float)| = {np.abs(v - f(x.astype(float))).max():.3e}")

cases = [
    ("T_SO3_psi  (control)", T_SO3_psi, T_SO3, psi),
    ("Exp_SO3_psi", Exp_SO3_psi, Exp_SO3, psi),
    ("T_SO3_inv_psi", T_SO3_inv_psi, T_SO3_inv, psi),
    ("Log_SO3_A", Log_SO3_A, Log_SO3, A),
    ("Exp_SE3_h", Exp_SE3_h, Exp_SE3, h),
    ("Log_SE3_H", Log_SE3_H, Log_SE3, H),
]
bad = 0
print("\nderivative routine at integer argument vs. difference quotient of its map at the same point:")
for name, df, f, x in cases:
    got = df(x)
    ref = fd(f, x)
    if name == "Log_SE3_H":
        ref = ref[:, :3, :]      # last row of H is constant, Log_SE3_H leaves it zero
        got = got[:, :3, :]
    err = np.abs(got - ref).max()
    err_float = np.abs((df(x.astype(float))[:, :3, :] if name == "Log_SE3_H" else df(x.astype(float))) - ref).max()
    flag = ""
    if not err < TOL:
        bad += 1
        flag = "  <-- VIOLATION"
    print(f"  {name:22s} result dtype {str(got.dtype):8s} max err = {err:.3e}   "
          f"(same routine, float copy of the argument: {err_float:.3e}){flag}")

print("\nExp_SO3_psi(np.array([0, 0, 1]))[:, :, 2] =")
print(Exp_SO3_psi(psi)[:, :, 2])
print("expected (difference quotient of Exp_SO3):")
print(np.round(fd(Exp_SO3, psi)[:, :, 2], 6))

if bad:
    print(f"\nFAIL: {bad} derivative routines return a truncated integer array")
    sys.exit(1)
print("\nOK")
sys.exit(0)
