"""C07 finding 1: torsional force laws on a Revolute joint are not functions of the state.

Revolute.l (the joint angle every Spring / KelvinVoigtElement / MaxwellElement on
a revolute joint is evaluated with) counts full turns with a quadrant tracker
that only recognises the transitions 4 -> 1 and 1 -> 4 between *successive
calls*.  Two successive evaluations that are more than one quadrant apart (but
less than half a turn, so the continuation is unambiguous) corrupt the counter.

Part A (state level, no solver): the states phi = 0, -0.1, 2.0, 0 (all inside
(-pi, pi), successive differences < pi) are evaluated in this order.  The last
state is identical to the first one, the closed path does no net work, yet the
reported potential energy changed by 0.5*k*(2 pi)^2 and the torque by 2 pi k.

Part B (solver level): a conservative system (rigid rotor, omega0 = 6 rad/s,
torsional spring k = 1) integrated by ScipyDAE with its default tolerances.
In compliance form the Radau stages / Newton iterates are evaluated more than a
quadrant (but less than half a turn) apart, the counter is corrupted and the
"conservative" spring changes the total energy by 2/3 of it.  A control run
with a nearest-branch continuation of the angle conserves the energy, i.e. the
solver and its step sizes are fine.

Exit code 0 iff the energies are consistent.
"""
import contextlib
import io
import sys
import warnings

import numpy as np

import cardillo
from cardillo import System
from cardillo.discrete import RigidBody
from cardillo.constraints import Revolute
from cardillo.force_laws import Spring

print("cardillo from:", cardillo.__file__)

k = 1.0
J = 2.0


def build(compliance_form, omega0=0.0):
    # uses the module level k, J
    system = System()
    rb = RigidBody(
        1.0,
        np.diag([1.0, 1.0, J]),
        q0=np.array([0, 0, 0, 1.0, 0, 0, 0]),
        u0=np.array([0, 0, 0, 0, 0, omega0]),
    )
    rev = Revolute(system.origin, rb, 2)
    spring = Spring(rev, k, l_ref=0.0, compliance_form=compliance_form)
    system.add(rb, rev, spring)
    system.assemble()
    return system, rb, rev, spring


def q_of(phi):
    # rotation by phi about e_z: a state on the joint manifold
    return np.array([0, 0, 0, np.cos(phi / 2), 0, 0, np.sin(phi / 2)])


failed = False

# ---------------------------------------------------------------- part A
print("\nPart A: state-level evaluation, states visited in the order 0, -0.1, 2.0, 0")
system, rb, rev, spring = build(False)
u = np.zeros(system.nu)
phis = [0.0, -0.1, 2.0, 0.0]
E = []
M = []
for phi in phis:
    q = q_of(phi)
    assert np.abs(rev.g(0.0, q[rev.qDOF])).max() < 1e-14  # on the manifold
    E.append(system.E_pot(0.0, q))
    M.append(system.h(0.0, q, u)[5])
    print(
        f"  phi = {phi:5.2f}:  E_pot = {E[-1]:10.6f} (0.5 k phi^2 = {0.5*k*phi**2:8.6f})"
        f"   torque = {M[-1]:10.6f} (-k phi = {-k*phi:9.6f})"
    )

# independent oracle: work of the element along the same closed path, walked in
# small steps by a fresh system (the tracker works for small steps)
system_f, rb_f, rev_f, spring_f = build(False)
path = np.concatenate(
    [np.linspace(0, -0.1, 11), np.linspace(-0.1, 2.0, 211), np.linspace(2.0, 0, 201)]
)
torque = np.array([system_f.h(0.0, q_of(p), u)[5] for p in path])
work = np.sum(0.5 * (torque[1:] + torque[:-1]) * np.diff(path))
dE_fine = system_f.E_pot(0.0, q_of(path[-1])) - 0.0
print(f"  work of the spring along the closed path (fine steps): {work:.3e}")
print(f"  E_pot(last) - E_pot(first), fine steps : {dE_fine:.3e}")
print(f"  E_pot(last) - E_pot(first), 4 states   : {E[-1] - E[0]:.6f}")
print(f"  torque(last) - torque(first), 4 states : {M[-1] - M[0]:.6f}")
errE = max(abs(Ei - 0.5 * k * p**2) for Ei, p in zip(E, phis))
errM = max(abs(Mi + k * p) for Mi, p in zip(M, phis))
if abs(E[-1] - E[0] + work) > 1e-9 or errE > 1e-9 or errM > 1e-9:
    print(
        f"  VIOLATION: same state, different energy/force; max |E - 0.5 k phi^2| = {errE:.6f},"
        f" max |M + k phi| = {errM:.6f}"
    )
    failed = True

# ---------------------------------------------------------------- part B
print("\nPart B: rotor (omega0 = 6 rad/s) with torsional spring k = 1, ScipyDAE with default tolerances, t1 = 3")
from cardillo.solver import ScipyDAE

omega0 = 6.0
w = np.sqrt(k / J)


def run(compliance_form):
    system, rb, rev, spring = build(compliance_form, omega0)
    with contextlib.redirect_stdout(io.StringIO()), contextlib.redirect_stderr(
        io.StringIO()
    ), warnings.catch_warnings():
        warnings.simplefilter("ignore")
        sol = ScipyDAE(system, 3.0, 1e-2).solve()
    p = sol.q[:, 3:7]
    # physical (unwrapped) joint angle of the computed motion from the stored
    # trajectory (output step 0.01 s * 6 rad/s << pi between samples)
    phi = np.unwrap(2 * np.arctan2(p[:, 3], p[:, 0]))
    Etot = 0.5 * J * sol.u[:, 5] ** 2 + 0.5 * k * phi**2
    exact = omega0 / w * np.sin(w * sol.t[-1])
    print(
        f"    compliance_form={compliance_form!s:5}: phi(t1) = {phi[-1]:8.4f} (exact {exact:.4f}),"
        f" E_tot(0) = {Etot[0]:.4f}, E_tot in [{Etot.min():.4f}, {Etot.max():.4f}]"
    )
    return Etot.max() - Etot.min(), Etot[0]


print("  pristine Revolute.l:")
for compliance_form in [False, True]:
    drift, E0 = run(compliance_form)
    if drift > 0.02 * E0:
        print(f"    VIOLATION: a conservative spring changed the total energy by {drift:.4f}")
        failed = True


# control: the same runs with an angle that continues the previously returned
# value to the nearest branch (valid for jumps < pi) -> the solver is fine
def l_nearest(self, t, q):
    A_IJ1 = self.A_IJ1(t, q)
    A_IJ2 = self.A_IJ2(t, q)
    a, b = self.plane_axes
    y = A_IJ2[:, a] @ A_IJ1[:, b]
    x = A_IJ2[:, a] @ A_IJ1[:, a]
    theta = np.arctan2(y, x)
    prev = getattr(self, "_prev_rel", 0.0)
    rel = theta + 2 * np.pi * np.round((prev - theta) / (2 * np.pi))
    self._prev_rel = rel
    return self.angle0 + rel


Revolute.l = l_nearest
print("  control, Revolute.l monkey-patched to nearest-branch continuation (not counted):")
for compliance_form in [False, True]:
    run(compliance_form)

sys.exit(1 if failed else 0)
