"""C16 finding 1: slowly sliding contacts get (almost) no friction force, or
the consistent state is rejected.

A point mass (m = 1, weight 10) slides with tangential speed v on the
horizontal plane z = 0, mu = 0.3. The state is consistent (g_N = 0,
g_N_dot = 0) and the contact is persistent, so for EVERY v != 0 Coulomb's law
demands

    la_N = 10,  la_F = -mu * la_N * gamma_F / |gamma_F| = (-3, 0),
    u_dot0 = (-3, 0, 0).

Run:  cd /tmp/seed4/C16 && PYTHONPATH=/tmp/seed4/C16 /venv/bin/python demo.py
"""
import contextlib
import io
import sys

import numpy as np

import cardillo
from cardillo import System
from cardillo.contacts import Sphere2Plane
from cardillo.discrete import PointMass
from cardillo.forces import Force

print("cardillo.__file__ =", cardillo.__file__)

m, grav, mu = 1.0, 10.0, 0.3


def assemble(v):
    system = System()
    pm = PointMass(m, q0=np.zeros(3), u0=np.array([v, 0.0, 0.0]))
    system.add(pm)
    system.add(Force(np.array([0.0, 0.0, -m * grav]), pm))
    system.add(Sphere2Plane(system.origin, pm, mu=mu, r=0.0))
    buf = io.StringIO()
    with contextlib.redirect_stdout(buf):
        system.assemble()
    return system, buf.getvalue().strip()


failures = 0
for v in [1.0, 1e-2, 1e-3, 1e-4, 1e-5, 1e-6, 5e-7, 1e-7, 2e-8]:
    expected_la_F = np.array([-mu * m * grav, 0.0])
    expected_u_dot = np.array([-mu * grav, 0.0, 0.0])
    try:
        system, log = assemble(v)
    except AssertionError as e:
        failures += 1
        print(f"v = {v:8.1e}: consistent sliding state REJECTED: AssertionError: {e}")
        continue
    gamma_F = system.gamma_F(system.t0, system.q0, system.u0)
    err_F = np.linalg.norm(system.la_F0 - expected_la_F)
    err_a = np.linalg.norm(system.u_dot0 - expected_u_dot)
    res = (
        system.M(system.t0, system.q0) @ system.u_dot0
        - system.h(system.t0, system.q0, system.u0)
        - system.W_N(system.t0, system.q0) @ system.la_N0
        - system.W_F(system.t0, system.q0) @ system.la_F0
    )
    ok = err_F < 1e-4 and err_a < 1e-4
    print(
        f"v = {v:8.1e}: |gamma_F| = {np.linalg.norm(gamma_F):.1e}  la_N0 = {system.la_N0}  "
        f"la_F0 = {system.la_F0}  (Coulomb: {expected_la_F})  u_dot0 = {system.u_dot0}  "
        f"EoM residual = {np.max(np.abs(res)):.1e}  [{log}]  -> {'ok' if ok else 'VIOLATION'}"
    )
    if not ok:
        failures += 1

if failures:
    print(f"\n{failures} sliding states violate the property (wrong friction force or false rejection)")
    sys.exit(1)
print("all sliding states obey Coulomb's law")
