"""approx_fprime squeezes away every axis of length one.

The Jacobian of f: R^n -> R^m is an (m, n) array.  approx_fprime ends with
`np.squeeze(grad.reshape(f_shape + x_shape))`, so whenever n == 1 or m == 1 the
result has the wrong number of axes: () for 1x1, (m,) for an (m, 1) column
Jacobian, (n,) for a (1, n) row.  A column Jacobian promoted back with
np.atleast_2d silently becomes its transpose, and Newton's helper fsolve cannot
solve any scalar equation with a numerical Jacobian (csc_array refuses 0-D).
"""
import sys
import warnings
import numpy as np
import cardillo

print("cardillo:", cardillo.__file__)
from cardillo.math.approx_fprime import approx_fprime
from cardillo.math.fsolve import fsolve
from cardillo.solver import SolverOptions
from scipy.sparse import csc_array

warnings.simplefilter("ignore")
fail = False

rng = np.random.default_rng(3)
for n, m in [(1, 1), (1, 3), (3, 1), (3, 3), (1, 8)]:
    B = rng.standard_normal((m, n))
    f = lambda y: B @ np.sin(y)
    x = rng.standard_normal(n)
    exact = B @ np.diag(np.cos(x))  # (m, n)
    for method in ["2-point", "3-point", "cs"]:
        J = approx_fprime(x, f, method=method)
        ok = np.shape(J) == exact.shape and np.allclose(J, exact, rtol=1e-4, atol=1e-5)
        if method == "3-point" or not ok:
            print(f"f: R^{n} -> R^{m}  {method:8s} exact shape {exact.shape}, approx_fprime shape {np.shape(J)}"
                  f"{'' if ok else '   <-- wrong'}")
        fail |= not ok
    if (n, m) == (1, 3):
        S = np.atleast_2d(approx_fprime(x, f))
        print(f"   np.atleast_2d(approx_fprime(...)).shape = {S.shape}, exact Jacobian is (3, 1)"
              f"{'  <-- transposed' if S.shape != (3, 1) else ''}")

# consequence in Newton's helper: scalar equation, numerical Jacobian modes
f1 = lambda x: np.array([x[0] ** 3 - 2.0])
ref = fsolve(f1, np.array([1.0]), lambda x: csc_array(np.array([[3 * x[0] ** 2]])))
print(f"fsolve x^3 = 2, exact Jacobian   : success={ref.success} x={ref.x}")
for method in ["2-point", "3-point", "cs"]:
    try:
        s = fsolve(f1, np.array([1.0]), options=SolverOptions(numerical_jacobian_method=method))
        print(f"fsolve x^3 = 2, numerical {method:8s}: success={s.success} x={s.x}")
        fail |= not (s.success and abs(s.x[0] - 2 ** (1 / 3)) < 1e-5)
    except Exception as e:
        print(f"fsolve x^3 = 2, numerical {method:8s}: raised {type(e).__name__}: {e}")
        fail = True

if fail:
    print("FAIL: numerical Jacobians of maps with a singleton dimension do not have the shape of the exact derivative")
    sys.exit(1)
print("OK")
