"""T_SE3 (SE(3) tangent map, coupling block U) is destroyed by cancellation for
small rotational parts.  Oracle: power series of the body-fixed tangent operator
T(h) = sum_k (-1)^k ad_h^k / (k+1)!  and a finite-difference twist of Exp_SE3."""
import sys
import numpy as np
import cardillo
from cardillo.math.rotations import T_SE3, Exp_SE3, SE3inv
from cardillo.math import ax2skew

print("cardillo.__file__ =", cardillo.__file__)
assert cardillo.__file__.startswith("/tmp/seed4/C02")


def T_series(h, n=40):
    r, psi = h[:3], h[3:]
    ad = np.zeros((6, 6))
    ad[:3, :3] = ad[3:, 3:] = ax2skew(psi)
    ad[:3, 3:] = ax2skew(r)
    T = np.zeros((6, 6))
    term = np.eye(6)
    for k in range(n):
        T += term
        term = -term @ ad / (k + 2)
    return T


def twist_fd(h, hd, eps=1e-6):
    H = Exp_SE3(h)
    W = SE3inv(H) @ ((Exp_SE3(h + eps * hd) - Exp_SE3(h - eps * hd)) / (2 * eps))
    return np.array([W[0, 3], W[1, 3], W[2, 3], W[2, 1], W[0, 2], W[1, 0]])


r = np.array([0.3, -1.1, 0.7])
n = np.array([2.0, -1.0, 2.0]) / 3.0
hd = np.array([0.5, -0.2, 0.9, 1.0, 0.4, -0.7])
tol = 1e-10
bad = 0
print(f"{'|psi|':>9} {'|T_SE3 - series|':>18} {'|T_SE3 hd - FD twist|':>22}")
for a in [1.0, 0.1, 1e-2, 1e-3, 1e-4, 1e-5, 1e-6, 1e-7, 1e-8, 3e-9, 1e-10, 0.0]:
    h = np.concatenate([r, a * n])
    T = T_SE3(h)
    e_series = np.abs(T - T_series(h)).max()
    e_fd = np.abs(T @ hd - twist_fd(h, hd)).max()
    flag = ""
    if not e_series <= tol:
        bad += 1
        flag = "  <-- VIOLATION"
    print(f"{a:9.1e} {e_series:18.3e} {e_fd:22.3e}{flag}")

if bad:
    print(f"FAIL: T_SE3 deviates from the exact tangent operator by more than {tol} for {bad} rotation magnitudes")
    sys.exit(1)
print("OK")
