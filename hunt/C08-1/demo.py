"""C08 finding 1: the Jacobian Wla_tau_q of a Motor on a Revolute joint cannot be
evaluated once the control input is a length-1 array - which is exactly what the
public System.set_tau() installs (tau[contr.tauDOF]) and what System.tau() itself
returns per actuator.  la_tau then has shape (1, 1) and BaseActuator.Wla_tau_q
raises an einsum ValueError; every implicit solver (BackwardEuler, ScipyDAE) dies
in its Jacobian, explicit evaluation (h, W_tau @ la_tau) works fine.

exit 0  <=>  Wla_tau_q / Wla_tau_u are returned and equal the finite-difference
             derivative of W_tau(q) @ la_tau(q, u) in all three ways of giving tau.
"""
import sys, warnings
import numpy as np

warnings.filterwarnings("ignore")
import cardillo

print("cardillo imported from", cardillo.__file__)
from cardillo import System
from cardillo.discrete import RigidBody
from cardillo.constraints import Revolute
from cardillo.actuators import Motor
from cardillo.math import Exp_SO3


def fd(f, x, h=1e-6):
    f0 = np.atleast_1d(f(x))
    J = np.zeros(f0.shape + (len(x),))
    for i in range(len(x)):
        xp = x.copy(); xp[i] += h
        xm = x.copy(); xm[i] -= h
        J[..., i] = (np.atleast_1d(f(xp)) - np.atleast_1d(f(xm))) / (2 * h)
    return J


def build(tau):
    system = System()
    A = Exp_SO3(np.array([0.3, -0.4, 0.5]))
    q0 = RigidBody.pose2q(np.array([0.2, -0.1, 0.4]), A)
    rb = RigidBody(1.3, np.diag([1.0, 2.0, 3.0]), q0=q0, name="rb")
    joint = Revolute(system.origin, rb, axis=2, name="joint")
    motor = Motor(joint, tau)
    system.add(rb, joint, motor)
    system.assemble()
    return system


rng = np.random.default_rng(0)
failures = 0
cases = {
    "Motor(joint, 2.0)  [scalar, reference]": lambda: build(2.0),
    "Motor(joint, 2.0); system.set_tau(np.array([2.0]))": None,
    "Motor(joint, 2.0); system.set_tau(lambda t: np.array([2.0 + t]))": None,
    "Motor(joint, np.array([2.0]))": lambda: build(np.array([2.0])),
}
for name in cases:
    if "set_tau(np" in name:
        system = build(2.0)
        system.set_tau(np.array([2.0]))
    elif "set_tau(lambda" in name:
        system = build(2.0)
        system.set_tau(lambda t: np.array([2.0 + t]))
    else:
        system = cases[name]()
    q = system.q0 + 0.1 * rng.standard_normal(system.nq)
    u = rng.standard_normal(system.nu)
    t = 0.3
    print("\n---", name)
    print("    system.tau(t) =", system.tau(t), "  system.la_tau =", system.la_tau(t, q, u))
    F = lambda qq, uu: system.W_tau(t, qq).toarray() @ system.la_tau(t, qq, uu)
    Jq_fd = fd(lambda x: F(x, u), q)
    Ju_fd = fd(lambda x: F(q, x), u)
    try:
        Jq = system.Wla_tau_q(t, q, u).toarray()
        Ju = system.Wla_tau_u(t, q, u).toarray()
    except Exception as e:
        print("    Wla_tau_q raised %s: %s" % (type(e).__name__, e))
        print("    (finite-difference derivative exists, max |dF/dq| = %.4f)" % np.abs(Jq_fd).max())
        failures += 1
        continue
    eq = np.abs(Jq - Jq_fd).max()
    eu = np.abs(Ju - Ju_fd).max()
    print("    max|Wla_tau_q - FD| = %.2e   max|Wla_tau_u - FD| = %.2e   (max|FD| = %.4f)" % (eq, eu, np.abs(Jq_fd).max()))
    if eq > 1e-6 or eu > 1e-6:
        failures += 1

# consequence: an implicit solver cannot take a single step
from cardillo.solver import BackwardEuler

system = build(2.0)
system.set_tau(np.array([2.0]))
try:
    BackwardEuler(system, 0.02, 0.01).solve()
    print("\nBackwardEuler after set_tau: ok")
except Exception as e:
    print("\nBackwardEuler after set_tau raised %s: %s" % (type(e).__name__, e))
    failures += 1

print("\nfailures:", failures)
sys.exit(1 if failures else 0)
