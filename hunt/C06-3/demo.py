"""C06 / finding 3: for a plane that only translates, r_OP(t) given as a callable
without the optional r_OP_t / r_OP_tt, the gap acceleration g_N_ddot and the slip
acceleration gamma_F_dot are NOT the time derivatives of g_N_dot / gamma_F: the plane
acceleration is taken from a second difference with step 1e-6, i.e. rounding noise of
size eps_machine*|r_OP|/1e-12 ~ 2e-4*|r_OP| is added (independent of the motion).
The contact kinematics therefore depend on where the origin is.

Run:  cd /tmp/seed4/C06 && PYTHONPATH=/tmp/seed4/C06 /venv/bin/python demo.py
Exit code 0 <=> |error| <= 1e-5 in all cases.
"""
import sys
import warnings
import numpy as np

warnings.filterwarnings("ignore")
import cardillo

print("cardillo.__file__ =", cardillo.__file__)
from cardillo import System
from cardillo.discrete import Frame, PointMass
from cardillo.contacts import Sphere2Plane
from cardillo.forces import Force
from cardillo.solver import SolverOptions

no_cic = SolverOptions(compute_consistent_initial_conditions=False)
TOL = 1e-5
amp, om = 0.1, 2.0  # table oscillates: z(t) = z0 + amp*sin(om*t), |a| <= 0.4
bad = 0

print("(A) g_N_ddot / gamma_F_dot against the closed form, table height z0 varies")
for z0 in [1.0, 100.0]:
    table = Frame(
        r_OP=lambda t, z0=z0: np.array([0.05 * np.sin(om * t), 0.0, z0 + amp * np.sin(om * t)]),
        name="table",
    )  # r_OP_t, r_OP_tt not given (documented as optional)
    ball = PointMass(1.0, q0=np.array([0.0, 0.0, z0 + 1.0]))
    contact = Sphere2Plane(table, ball, mu=0.3, r=0.5)
    system = System()
    system.add(table, ball, contact)
    system.assemble(options=no_cic)
    q = np.array([0.3, 0.2, z0 + 0.7])
    u = np.array([0.1, 0.2, 0.3])
    u_dot = np.array([1.0, 2.0, 3.0])
    eN = eF = eV = 0.0
    for t in np.linspace(0.1, 3.0, 30):
        aQ = -om**2 * np.array([0.05 * np.sin(om * t), 0.0, amp * np.sin(om * t)])
        vQ = om * np.array([0.05 * np.cos(om * t), 0.0, amp * np.cos(om * t)])
        eV = max(eV, abs(system.g_N_dot(t, q, u)[0] - (u[2] - vQ[2])))
        eN = max(eN, abs(system.g_N_ddot(t, q, u, u_dot)[0] - (u_dot[2] - aQ[2])))
        eF = max(eF, np.max(np.abs(system.gamma_F_dot(t, q, u, u_dot) - (u_dot[:2] - aQ[:2]))))
    print(f"  z0 = {z0:6.1f}: max err g_N_dot = {eV:.2e}, g_N_ddot = {eN:.2e}, gamma_F_dot = {eF:.2e}"
          f"   (plane acceleration amplitude {amp * om**2})")
    if eN > TOL or eF > TOL:
        bad += 1

print("(B) same physical system, exact derivatives supplied -> reference for the initial accelerations")
res = {}
for mode in ["default", "exact"]:
    z0 = 100.0
    kw = {}
    if mode == "exact":
        kw = dict(
            r_OP_t=lambda t: np.array([0.0, 0.0, amp * om * np.cos(om * t)]),
            r_OP_tt=lambda t: np.array([0.0, 0.0, -amp * om**2 * np.sin(om * t)]),
        )
    table = Frame(r_OP=lambda t: np.array([0.0, 0.0, z0 + amp * np.sin(om * t)]), name="table", **kw)
    t0 = 0.6
    # ball resting on the table and moving with it at t0
    # (velocity taken from the frame itself, so that g_N_dot(t0) = 0 exactly)
    ball = PointMass(
        1.0,
        q0=table.r_OP(t0) + np.array([0.0, 0.0, 0.5]),
        u0=table.v_P(t0),
    )
    contact = Sphere2Plane(table, ball, mu=0.3, r=0.5)
    system = System(t0=t0)
    system.add(table, ball, contact, Force(np.array([0, 0, -9.81]), ball))
    system.assemble()
    res[mode] = (system.u_dot0.copy(), system.la_N0.copy())
    print(f"  {mode:8s}: u_dot0 = {system.u_dot0}, la_N0 = {system.la_N0}")
exact_acc = -amp * om**2 * np.sin(om * 0.6)
err_acc = abs(res["default"][0][2] - exact_acc)
err_la = abs(res["default"][1][0] - (9.81 + exact_acc))
print(f"  closed form: u_dot0_z = {exact_acc:.10f}, la_N0 = {9.81 + exact_acc:.10f};"
      f"  default-derivative errors: {err_acc:.2e}, {err_la:.2e}")
if err_acc > TOL or err_la > TOL:
    bad += 1

if bad:
    print(f"\nVIOLATION: {bad} checks exceed {TOL:g} (rounding noise amplified by 1/eps^2 = 1e12)")
    sys.exit(1)
print("\nOK")
sys.exit(0)
