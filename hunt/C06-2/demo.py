"""C06 / finding 2: contact gaps, gap Jacobians and generalized force directions are
silently truncated to integers when the state vector has an integer dtype, which is
what the package itself produces when initial coordinates are given as Python ints,
e.g. PointMass(m, q0=[0, 0, 1], u0=[0, 0, 0]).

Run:  cd /tmp/seed4/C06 && PYTHONPATH=/tmp/seed4/C06 /venv/bin/python demo.py
Exit code 0 <=> all quantities agree with the geometric values / with the evaluation
at the same state stored as float64.
"""
import sys
import warnings
import numpy as np

warnings.filterwarnings("ignore")
import cardillo

print("cardillo.__file__ =", cardillo.__file__)
from cardillo import System
from cardillo.discrete import Frame, PointMass
from cardillo.contacts import Sphere2Plane, Sphere2Sphere
from cardillo.forces import Force
from cardillo.solver import SolverOptions

no_cic = SolverOptions(compute_consistent_initial_conditions=False)
bad = 0


def report(name, got, expected, tol=1e-12):
    global bad
    got = np.asarray(got, dtype=float)
    expected = np.asarray(expected, dtype=float)
    err = np.max(np.abs(got - expected))
    flag = "ok " if err <= tol else "BAD"
    if err > tol:
        bad += 1
    print(f"  [{flag}] {name}: got {np.array2string(got, precision=4)}  expected "
          f"{np.array2string(expected, precision=4)}  (err {err:.3e})")


# ---------------------------------------------------------------------------
# (A) ball of radius 0.25 released 0.75 above a horizontal plane
# ---------------------------------------------------------------------------
print("(A) point mass above a horizontal plane, q0=[0, 0, 1] (Python ints)")
system = System()
plane = Frame(name="plane")
ball = PointMass(1.0, q0=[0, 0, 1], u0=[0, 0, 0], name="ball")
contact = Sphere2Plane(plane, ball, mu=0.3, r=0.25)
system.add(plane, ball, contact, Force(np.array([0, 0, -9.81]), ball))
system.assemble()
print("  system.q0 =", system.q0, "dtype", system.q0.dtype)
report("System.g_N(t0, q0)   (signed distance 1 - 0.25)", system.g_N(0.0, system.q0), [0.75])
report("u_dot0 from assemble (free fall expected)", system.u_dot0, [0, 0, -9.81])
report("la_N0 from assemble  (open contact)", system.la_N0, [0.0])

# ---------------------------------------------------------------------------
# (B) same ball, plane tilted by 30 deg about e_y
# ---------------------------------------------------------------------------
print("(B) point mass above a plane tilted by 30 deg, state q=[0, 0, 3] as int64")
al = np.deg2rad(30)
A = np.array([[np.cos(al), 0, np.sin(al)], [0, 1, 0], [-np.sin(al), 0, np.cos(al)]])
n = A[:, 2]
system = System()
plane = Frame(A_IB=A, name="plane")
ball = PointMass(1.0, q0=[0, 0, 3], u0=[0, 0, 0], name="ball")
contact = Sphere2Plane(plane, ball, mu=0.3, r=0.5)
system.add(plane, ball, contact)
system.assemble(options=no_cic)
q_int = system.q0
q_flt = system.q0.astype(float)
print("  system.q0 =", q_int, "dtype", q_int.dtype, "  plane normal n =", n)
report("System.g_N", system.g_N(0.0, q_int), [n @ q_flt - 0.5])
report("Sphere2Plane.g_N_q", contact.g_N_q(0.0, q_int[contact.qDOF]), [n])
report("System.g_N_q", system.g_N_q(0.0, q_int).toarray(), [n])
report("System.W_N^T (force direction)", system.W_N(0.0, q_int).toarray().T, [n])
report("same with float64 state", system.W_N(0.0, q_flt).toarray().T, [n])

# ---------------------------------------------------------------------------
# (C) two point masses, sphere-sphere contact
# ---------------------------------------------------------------------------
print("(C) sphere-sphere contact of two point masses at [0,0,0] and [1,2,2] (ints)")
system = System()
p1 = PointMass(1.0, q0=[0, 0, 0], u0=[0, 0, 0], name="p1")
p2 = PointMass(1.0, q0=[1, 2, 2], u0=[0, 0, 0], name="p2")
contact = Sphere2Sphere(p1, p2, 0.25, 0.5, 0.3)
system.add(p1, p2, contact)
system.assemble(options=no_cic)
q_int = system.q0
q_flt = q_int.astype(float)
u = np.array([0.3, -0.2, 0.1, 0.5, 0.4, -0.6])
print("  system.q0 =", q_int, "dtype", q_int.dtype)
report("System.g_N (distance 3 - 0.25 - 0.5)", system.g_N(0.0, q_int), [2.25])
W_F_int = system.W_F(0.0, q_int).toarray()
W_F_flt = system.W_F(0.0, q_flt).toarray()
report("System.W_F^T row 0", W_F_int.T[0], W_F_flt.T[0])
report("System.W_F^T row 1", W_F_int.T[1], W_F_flt.T[1])
report("W_F^T u  vs  gamma_F(t, q, u)", W_F_int.T @ u, system.gamma_F(0.0, q_int, u), tol=1e-10)

if bad:
    print(f"\nVIOLATION: {bad} contact quantities are wrong for integer-typed states")
    sys.exit(1)
print("\nOK")
sys.exit(0)
