"""C04 finding 2: RigidBody.q_dot_u is not the derivative of RigidBody.q_dot
w.r.t. u when the configuration is given as an integer-typed array, e.g.
q0 = np.array([0, 0, 0, 1, 0, 0, 0]): the quaternion block (entries +-0.5*p_i)
is written into an array of dtype q.dtype and truncated to zero.
Because neither RigidBody nor System.assemble cast q0 to float, the integer
type survives into system.q0 and Rattle (which uses B = q_dot_u(t_n, q_n) in
its residual) silently integrates a different trajectory.

Run: cd /tmp/seed4/C04 && PYTHONPATH=/tmp/seed4/C04 /venv/bin/python /tmp/seed5/out/C04/2/demo.py
"""
import contextlib, io, sys
import numpy as np
import cardillo
from cardillo import System
from cardillo.discrete import RigidBody
from cardillo.solver import Rattle

print("cardillo.__file__ =", cardillo.__file__)
fails = []

Theta = np.diag([1.0, 2.0, 3.0])
u = np.array([0.0, 0.0, 0.0, 0.1, 5.0, 0.1])

# ------------------------------------------------------------------
# (a) direct check: q_dot is linear in u, hence q_dot == q_dot_u @ u
# ------------------------------------------------------------------
for q in (
    np.array([0, 0, 0, 1, 0, 0, 0]),  # identity, the documented default values
    np.array([3, -2, 7, 1, 1, 0, 0]),  # 90 deg about x, non-unit quaternion
    np.array([0, 0, 0, 3, -1, 2, 5]),  # generic non-unit quaternion
):
    rb = RigidBody(1.0, Theta, q0=q, u0=u)
    B_int = rb.q_dot_u(0.0, rb.q0)
    B_flt = rb.q_dot_u(0.0, rb.q0.astype(float))
    lhs = rb.q_dot(0.0, rb.q0, u)
    # exact derivative of q_dot w.r.t. u (q_dot is linear in u)
    B_ref = np.column_stack([rb.q_dot(0.0, rb.q0, e) for e in np.eye(6)])
    err = np.max(np.abs(B_int - B_ref))
    print(f"(a) q = {q} (dtype {rb.q0.dtype})")
    print("    q_dot(t, q, u)        =", lhs)
    print("    q_dot_u(t, q) @ u     =", B_int @ u, " dtype of q_dot_u:", B_int.dtype)
    print("    max |q_dot_u - d q_dot/du| =", err, "   (same call with float q:", np.max(np.abs(B_flt - B_ref)), ")")
    if err > 1e-12:
        fails.append(f"(a) q={q.tolist()}: q_dot_u differs from d q_dot/du by {err}")


# ------------------------------------------------------------------
# (b) consequence through public entry points only: Rattle
# ------------------------------------------------------------------
def simulate(q0):
    rb = RigidBody(1.0, Theta, q0=q0, u0=u)
    system = System()
    system.add(rb)
    with contextlib.redirect_stdout(io.StringIO()), contextlib.redirect_stderr(io.StringIO()):
        system.assemble()
        sol = Rattle(system, 0.5, 1e-2).solve()
    return system.q0.dtype, sol.q


dt_i, q_i = simulate(np.array([0, 0, 0, 1, 0, 0, 0]))
dt_f, q_f = simulate(np.array([0.0, 0, 0, 1, 0, 0, 0]))
print("(b) torque-free rigid body, Rattle, t1 = 0.5, dt = 1e-2")
print("    system.q0.dtype (int input)   =", dt_i)
print("    system.q0.dtype (float input) =", dt_f)
print("    quaternion after 1 step  (int q0)   =", q_i[1, 3:])
print("    quaternion after 1 step  (float q0) =", q_f[1, 3:])
print("    quaternion at t1         (int q0)   =", q_i[-1, 3:])
print("    quaternion at t1         (float q0) =", q_f[-1, 3:])
diff = np.max(np.abs(q_i - q_f))
print("    max difference of the two trajectories =", diff)
if diff > 1e-10:
    fails.append(f"(b) same initial state given as int / float array: Rattle trajectories differ by {diff}")

if fails:
    print("\nVIOLATION:")
    for f in fails:
        print("  -", f)
    sys.exit(1)
print("\nOK")
sys.exit(0)
