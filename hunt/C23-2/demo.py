"""C23 finding 2: the first point returned by Riks is not an equilibrium.

Clamped cantilever with a constant dead tip force and a proportional tip moment.
Riks.solve() returns (q0, la_arc = 0) as its first point without ever solving the
equilibrium equations there; Newton solves its load step t = 0.

Run as:  cd /tmp/seed4/C23 && PYTHONPATH=/tmp/seed4/C23 /venv/bin/python demo.py
"""
import sys, io, contextlib, warnings
import numpy as np
import cardillo
from cardillo import System
from cardillo.solver import Riks, Newton, SolverOptions
from cardillo.rods import RectangularCrossSection, Harsch2021, Simo1986
from cardillo.rods.cosseratRod import make_CosseratRod
from cardillo.constraints import RigidConnection
from cardillo.forces import Force, B_Moment

print("cardillo.__file__ =", cardillo.__file__)
L = 2 * np.pi
F_dead = np.array([0.0, -0.005, 0.0])  # constant tip force (does not scale with la_arc)
M_prop = np.array([0.0, 0.0, 0.3])  # tip moment, scaled with la_arc


def build(interpolation, mixed, constraints):
    Rod = make_CosseratRod(interpolation=interpolation, mixed=mixed, constraints=constraints)
    law = Simo1986 if mixed else Harsch2021
    mat = law(np.array([5.0, 1.0, 1.0]), np.array([0.5, 2.0, 2.0]))
    cs = RectangularCrossSection(L / 100, L / 100)
    q0 = Rod.straight_configuration(4, L)
    rod = Rod(cs, mat, 4, Q=q0, q0=q0)
    system = System()
    system.add(rod, RigidConnection(system.origin, rod, xi2=(0,)))
    system.add(Force(lambda t: F_dead, rod, (1,)))
    system.add(B_Moment(lambda t: t * M_prop, rod, (1,)))
    system.assemble(options=SolverOptions(compute_consistent_initial_conditions=False))
    return system, rod


def run(fct):
    buf = io.StringIO()
    with warnings.catch_warnings(record=True) as wl:
        warnings.simplefilter("always")
        with contextlib.redirect_stdout(buf), contextlib.redirect_stderr(buf):
            try:
                res, exc = fct(), None
            except BaseException as e:
                res, exc = None, e
    return res, exc, [str(w.message) for w in wl if "clamping frac" not in str(w.message)]


def residuals(system, sol):
    u0 = np.zeros(system.nu)
    out = []
    for i in range(len(sol.t)):
        t, q, la_g, la_c = sol.t[i], sol.q[i], sol.la_g[i], sol.la_c[i]
        f = system.h(t, q, u0) + system.W_g(t, q, format="csr") @ la_g + system.W_c(t, q, format="csr") @ la_c
        r = [np.max(np.abs(f))]
        if system.nla_g:
            r.append(np.max(np.abs(system.g(t, q))))
        if system.nla_c:
            r.append(np.max(np.abs(system.c(t, q, u0, la_c))))
        r.append(np.max(np.abs(system.g_S(t, q))))
        out.append(max(r))
    return np.array(out)


opts = SolverOptions()  # defaults: newton_atol = newton_rtol = 1e-6
# generous acceptance threshold: 100 x (atol + rtol * largest load)
tol = 100 * (opts.newton_atol + opts.newton_rtol * 0.3)
bad = False
for interpolation, mixed, constraints in [
    ("Quaternion", False, None),
    ("SE3", False, [1, 2]),
    ("R12", True, [0, 1, 2]),
]:
    label = f"{interpolation}, mixed={mixed}, constraints={constraints}"
    system, rod = build(interpolation, mixed, constraints)
    sol, exc, wm = run(lambda: Riks(system, la_arc0=1e-2, options=opts).solve())
    if exc is not None:
        print(label, ": Riks raised", repr(exc), "(no point returned)")
        continue
    r = residuals(system, sol)
    print(label)
    print("   Riks la_arc       :", np.array2string(np.asarray(sol.t), precision=4))
    print("   Riks max residual :", np.array2string(r, precision=2))
    print("   Riks warnings     :", wm)
    # reference: Newton solves the load step t = 0
    system2, rod2 = build(interpolation, mixed, constraints)
    soln, excn, wn = run(lambda: Newton(system2, n_load_steps=4, verbose=False, options=opts).solve())
    rn = residuals(system2, soln)
    tipN = rod2.r_OP(0, soln.q[0][rod2.qDOF][rod2.local_qDOF_P((1,))], (1,))
    tipR = rod.r_OP(0, sol.q[0][rod.qDOF][rod.local_qDOF_P((1,))], (1,))
    print("   Newton max residual:", np.array2string(rn, precision=2))
    print("   tip position at load factor 0: Newton", tipN, " Riks", tipR)
    idx = np.where(r > tol)[0]
    if len(idx):
        bad = True
        print(
            f"   FAIL: returned point(s) {idx.tolist()} (la_arc = {np.asarray(sol.t)[idx].tolist()}) violate static equilibrium: "
            f"residual {r[idx].max():.3e} > {tol:.1e} (= 100 x (atol + rtol * load))"
        )

if bad:
    sys.exit(1)
print("OK")
sys.exit(0)
