"""C28 finding 1: the URDF importer ignores the <axis> of planar joints.

URDF: a planar joint "allows motion in a plane perpendicular to the axis"; the
axis is given in the joint frame and defaults to (1, 0, 0).  The importer always
uses the z-axis of the joint frame as plane normal (Planarizer(axis=2)) and puts
the requested (x, y) configuration / velocity along the x/y axes of the joint
frame.  For every axis that is not parallel to z the initial state leaves the
plane of the described joint and the constraint that is built blocks the wrong
direction.

The checks are independent of how the two in-plane coordinates are laid out:
  (a) the child origin must stay in the plane through the joint origin that is
      perpendicular to the axis,
  (b) its velocity relative to the (resting) parent must be perpendicular to the axis,
  (c) the assembled bilateral constraint must resist a translation of the child
      along the axis and must not resist translations perpendicular to it.

Run:  cd /tmp/seed4/C28 && PYTHONPATH=/tmp/seed4/C28 /venv/bin/python /tmp/seed5/out/C28/1/demo.py
"""
import contextlib, io, os, sys, tempfile
import numpy as np
import cardillo
from cardillo.urdf import system_from_urdf

print("cardillo:", cardillo.__file__)

URDF = """<?xml version="1.0"?>
<robot name="planar_demo">
  <link name="base"/>
  <link name="slider">
    <inertial><origin xyz="0 0 0" rpy="0 0 0"/><mass value="2.0"/>
      <inertia ixx="0.1" ixy="0" ixz="0" iyy="0.2" iyz="0" izz="0.3"/></inertial>
  </link>
  <joint name="J" type="planar">
    <parent link="base"/><child link="slider"/>
    <origin xyz="0.5 -0.2 0.1" rpy="0 0 0"/>
    {axis}
  </joint>
</robot>
"""


def rpy2A(r, p, y):
    Rx = np.array([[1, 0, 0], [0, np.cos(r), -np.sin(r)], [0, np.sin(r), np.cos(r)]])
    Ry = np.array([[np.cos(p), 0, np.sin(p)], [0, 1, 0], [-np.sin(p), 0, np.cos(p)]])
    Rz = np.array([[np.cos(y), -np.sin(y), 0], [np.sin(y), np.cos(y), 0], [0, 0, 1]])
    return Rz @ Ry @ Rx


def load(axis_tag, cfg, vel):
    with tempfile.NamedTemporaryFile("w", suffix=".urdf", delete=False) as f:
        f.write(URDF.format(axis=axis_tag))
        fn = f.name
    try:
        with contextlib.redirect_stdout(io.StringIO()):
            return system_from_urdf(fn, configuration={"J": cfg}, velocities={"J": vel})
    finally:
        os.unlink(fn)


cases = [
    ("control: axis 0 0 1", '<axis xyz="0 0 1"/>', np.array([0.0, 0.0, 1.0])),
    ("no <axis> tag (URDF default 1 0 0)", "", np.array([1.0, 0.0, 0.0])),
    ("axis 1 0 0", '<axis xyz="1 0 0"/>', np.array([1.0, 0.0, 0.0])),
    ("axis 0 1 0", '<axis xyz="0 1 0"/>', np.array([0.0, 1.0, 0.0])),
    ("axis 1 2 2", '<axis xyz="1 2 2"/>', np.array([1.0, 2.0, 2.0]) / 3.0),
]

r_OJ = np.array([0.5, -0.2, 0.1])  # base frame = inertial frame, joint rpy = 0
cfg = np.array([0.3, 0.2])
vel = np.array([1.0, 2.0])
tol = 1e-9
failures = 0

for label, tag, n in cases:
    system = load(tag, cfg, vel)
    body = system.contributions_map["slider"]
    t0, q0, u0 = system.t0, system.q0.copy(), system.u0.copy()
    q, u = q0[body.qDOF], u0[body.uDOF]
    r = body.r_OP(t0, q)
    v = body.v_P(t0, q, u)

    out_of_plane = (r - r_OJ) @ n
    v_out_of_plane = v @ n

    # (c) translate the child by 0.1 along the axis / along two directions in the plane
    def g_after_shift(d):
        qq = q0.copy()
        qq[body.qDOF[:3]] += 0.1 * d
        return np.max(np.abs(system.g(t0, qq)))

    t1 = np.cross(n, [0.0, 0.0, 1.0]) if abs(n[2]) < 0.9 else np.cross(n, [1.0, 0.0, 0.0])
    t1 /= np.linalg.norm(t1)
    t2 = np.cross(n, t1)
    g_n, g_t1, g_t2 = g_after_shift(n), g_after_shift(t1), g_after_shift(t2)

    bad = []
    if abs(out_of_plane) > tol:
        bad.append("(a) child origin is %.3g out of the joint plane" % out_of_plane)
    if abs(v_out_of_plane) > tol:
        bad.append("(b) child velocity has a component %.3g along the axis" % v_out_of_plane)
    if g_n < 1e-3:
        bad.append("(c) constraint does not resist a 0.1 translation along the axis (|g|=%.3g)" % g_n)
    if max(g_t1, g_t2) > tol:
        bad.append("(c) constraint resists an in-plane translation (|g|=%.3g, %.3g)" % (g_t1, g_t2))

    print(f"\n{label}")
    print("   r_child - r_joint =", r - r_OJ, "  v_child =", v)
    print("   (r_child - r_joint).axis = %.6g   v_child.axis = %.6g" % (out_of_plane, v_out_of_plane))
    print("   |g| after 0.1 shift along axis: %.3g ; along in-plane dirs: %.3g, %.3g" % (g_n, g_t1, g_t2))
    if bad:
        failures += 1
        for b in bad:
            print("   VIOLATION", b)
    else:
        print("   ok")

print()
if failures:
    print(f"FAIL: {failures} of {len(cases)} planar-joint cases are inconsistent with the described joint axis")
    sys.exit(1)
print("PASS")
sys.exit(0)
