"""C10 finding 2: the (complementary) strain energy of the mixed rod cannot be evaluated.

CosseratRodMixed.E_comp_pot(t, la_c) is the strain energy of the mixed formulation
expressed in its own unknowns la_c (the independent stress field).  It must be 0 for the
stress-free reference (la_c = 0), and - since la_c(q) is objective - unchanged by a
superposed rigid motion.  Observed: every call raises IndexError, because the method
hands the element stresses to E_pot_el (which expects element *positions* qe) instead of
E_comp_pot_el.

Run:  cd /tmp/seed4/C10 && PYTHONPATH=/tmp/seed4/C10 /venv/bin/python /tmp/seed5/out/C10/2/demo.py
"""
import sys
import warnings
import numpy as np

warnings.filterwarnings("ignore")
import cardillo

print("cardillo.__file__ =", cardillo.__file__)

from cardillo.rods import RectangularCrossSection, Simo1986
from cardillo.rods.cosseratRod import make_CosseratRod
from cardillo.math import Exp_SO3, quatprod, axis_angle2quat


def rigid(rod, q, psi, t):
    angle = np.linalg.norm(psi)
    R = Exp_SO3(psi)
    pR = axis_angle2quat(psi / angle, angle)
    q2 = q.copy()
    for dof in rod.nodalDOF_r:
        q2[dof] = R @ q[dof] + t
    for dof in rod.nodalDOF_p:
        q2[dof] = quatprod(pR, q[dof])
    return q2


rng = np.random.default_rng(7)
failures = 0
for interpolation, p, constraints in [
    ("Quaternion", 2, None),
    ("SE3", 1, None),
    ("R12", 3, None),
    ("Quaternion", 2, (1, 2)),
]:
    Rod = make_CosseratRod(
        interpolation=interpolation, mixed=True, constraints=constraints, polynomial_degree=p
    )
    nelement = 3
    # curved stress-free reference: quarter circle of radius 2
    phi = np.pi / 2
    r_OP = lambda xi: 2 * np.array([np.sin(phi * xi), 1 - np.cos(phi * xi), 0.0])
    A_IB = lambda xi: np.array(
        [[np.cos(phi * xi), -np.sin(phi * xi), 0], [np.sin(phi * xi), np.cos(phi * xi), 0], [0, 0, 1.0]]
    )
    Q = Rod.pose_configuration(nelement, r_OP, A_IB)
    rod = Rod(
        RectangularCrossSection(0.1, 0.05),
        Simo1986(np.array([5.0, 1.0, 2.0]), np.array([0.5, 2.0, 3.0])),
        nelement,
        Q=Q,
    )
    rod.assembler_callback()
    u0 = np.zeros(rod.nu)
    q = rod.Q + 0.05 * rng.standard_normal(rod.nq)
    q2 = rigid(rod, q, np.array([0.4, -0.9, 0.3]), np.array([1.0, -2.0, 0.5]))
    la_c, la_c2 = rod.la_c(0, q, u0), rod.la_c(0, q2, u0)
    # element-wise reference value (E_comp_pot_el itself is fine)
    expected = sum(
        rod.E_comp_pot_el(la_c[rod.elDOF_la_c[el]], el) for el in range(rod.nelement)
    )
    tag = f"{interpolation:10s} p={p} constraints={constraints!s:6}"
    try:
        E_ref = rod.E_comp_pot(0, np.zeros(rod.nla_c))
        E1 = rod.E_comp_pot(0, la_c)
        E2 = rod.E_comp_pot(0, la_c2)
    except Exception as e:
        failures += 1
        print(f"{tag}: E_comp_pot raises {type(e).__name__}: {e}   (expected value for la_c(q): {expected:.6e})")
        continue
    ok = (
        E_ref == 0.0
        and abs(E1 - expected) <= 1e-12 * abs(expected)
        and abs(E1 - E2) <= 1e-10 * abs(expected)
    )
    print(f"{tag}: E_comp_pot(reference)={E_ref:.3e}, E_comp_pot(la_c(q))={E1:.6e} (expected {expected:.6e}), after rigid motion {E2:.6e} -> {'ok' if ok else 'WRONG'}")
    failures += not ok

if failures:
    print(f"\nFAIL: complementary strain energy unavailable / wrong in {failures} cases")
    sys.exit(1)
print("\nOK")
sys.exit(0)
