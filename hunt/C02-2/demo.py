"""Exp_SE3 silently truncates the result to integers when the screw h is an
integer-valued ndarray (H is allocated with dtype=h.dtype), although Exp_SO3,
T_SO3 and Log_SE3 accept the very same integer arrays and work in floating point.
Clause: 'the same round-trips hold for the SE(3) exponential and logarithm',
quantified over all screws h with rotational part of norm < pi."""
import sys
import numpy as np
import cardillo
from cardillo.math.rotations import Exp_SE3, Log_SE3, Exp_SO3, T_SO3

print("cardillo.__file__ =", cardillo.__file__)
assert cardillo.__file__.startswith("/tmp/seed4/C02")

bad = 0
for h in [np.array([1, 2, 3, 0, 0, 1]), np.array([0, 0, 0, 1, -1, 2]), 2 * np.array([0, 1, 0, 0, 0, 1])]:
    hf = h.astype(float)
    H = Exp_SE3(h)
    Hf = Exp_SE3(hf)
    R = H[:3, :3]
    e_orth = np.abs(R.T @ R - np.eye(3)).max()
    e_same = np.abs(H - Hf).max()
    e_log = np.abs(Log_SE3(H) - hf).max()
    # the building blocks handle the integer array correctly
    e_so3 = np.abs(Exp_SO3(h[3:]) - Exp_SO3(hf[3:])).max()
    e_T = np.abs(T_SO3(h[3:]) - T_SO3(hf[3:])).max()
    print(f"h = {h} (dtype {h.dtype}, |psi| = {np.linalg.norm(hf[3:]):.3f} < pi)")
    print("  Exp_SE3(h) =\n", H)
    print("  Exp_SE3(h.astype(float)) =\n", np.round(Hf, 6))
    print(f"  |R^T R - I| = {e_orth:.3e}   |Exp_SE3(h) - Exp_SE3(float h)| = {e_same:.3e}   |Log_SE3(Exp_SE3(h)) - h| = {e_log:.3e}")
    print(f"  (Exp_SO3 int vs float: {e_so3:.1e}, T_SO3 int vs float: {e_T:.1e})")
    if e_orth > 1e-12 or e_same > 1e-12 or e_log > 1e-12:
        bad += 1
if bad:
    print(f"FAIL: {bad} integer-valued screws are not exponentiated to a rigid transformation / do not round-trip")
    sys.exit(1)
print("OK")
