"""fsolve: the numerical-Jacobian branch is not wired to the defaults.

1. `jac` is documented as optional and `jac is None` is explicitly routed to the
   finite-difference branch, but that branch forwards
   `options.numerical_jacobian_method`, whose default is False, to approx_fprime:
   fsolve(fun, x0) raises ValueError("Unknown method 'False'.") for every system.
2. The documented flag inexact=True (Newton chord with constant J = jac(x0)) in
   the same branch never builds the LU decomposition: NameError on `lu`.
Neither a result nor the non-convergence warning is produced.
"""
import sys
import warnings
import numpy as np
import cardillo

print("cardillo:", cardillo.__file__)
from cardillo.math.fsolve import fsolve
from cardillo.solver import SolverOptions
from scipy.sparse import csc_array

warnings.simplefilter("ignore")
fail = False

fun = lambda x: np.array([x[0] ** 2 + x[1] - 2.0, x[0] - x[1]])
jac = lambda x: csc_array(np.array([[2 * x[0], 1.0], [1.0, -1.0]]))
x0 = np.array([2.0, 0.5])

ref = fsolve(fun, x0, jac)
print(f"exact Jacobian                      : success={ref.success} x={ref.x} nit={ref.nit}")


def attempt(label, call):
    global fail
    try:
        s = call()
        ok = bool(s.success) and np.allclose(s.x, [1.0, 1.0], atol=1e-4)
        print(f"{label}: success={s.success} x={s.x} nit={s.nit}")
        fail |= not ok
    except Exception as e:
        print(f"{label}: raised {type(e).__name__}: {e}")
        fail = True


attempt("fsolve(fun, x0)  [jac=None, defaults]", lambda: fsolve(fun, x0))
attempt("fsolve(fun, x0, None) + rtol option  ", lambda: fsolve(fun, x0, None, options=SolverOptions(newton_rtol=1e-8)))
attempt("numerical 3-point, inexact=True      ", lambda: fsolve(fun, x0, None, inexact=True, options=SolverOptions(numerical_jacobian_method="3-point", newton_max_iter=50)))
attempt("exact jac, inexact=True (reference)  ", lambda: fsolve(fun, x0, jac, inexact=True, options=SolverOptions(newton_max_iter=50)))

if fail:
    print("FAIL: Newton's helper neither returns a result nor warns for documented Jacobian modes")
    sys.exit(1)
print("OK")
