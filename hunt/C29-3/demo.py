"""C29 finding 3: the collection (.pvd) file stores the frame times with a fixed "%0.6f" format.
For solutions whose exported frames are closer than 1e-6 in time (short horizons / small steps /
high frame rates - e.g. a microsecond-scale impact simulation) several frames get the SAME
timestep label, the listing is no longer in (strict) time order and the labels are not the
times at which the geometry in the files was evaluated.

Run:  cd /tmp/seed4/C29 && PYTHONPATH=/tmp/seed4/C29 /venv/bin/python /tmp/seed5/out/C29/3/demo.py
Exit code 0 <=> every DataSet entry points to an existing file, the timesteps are strictly
increasing and equal the solution time of the frame whose geometry the file contains.
"""
import sys, tempfile, warnings
from xml.dom import minidom
import numpy as np

warnings.filterwarnings("ignore")
import cardillo

print("cardillo from:", cardillo.__file__)

import vtk
from vtk.util.numpy_support import vtk_to_numpy
from cardillo import System
from cardillo.discrete import RigidBody, PointMass
from cardillo.forces import Force
from cardillo.solver import Moreau
from cardillo.visualization import Export


def read_points(f):
    r = vtk.vtkXMLUnstructuredGridReader()
    r.SetFileName(str(f))
    r.Update()
    return vtk_to_numpy(r.GetOutput().GetPoints().GetData()).copy()


def run(t0, dt, nsteps, fps):
    t1 = t0 + nsteps * dt
    system = System(t0=t0)
    p = np.array([1.0, 0.2, 0.3, 0.4])
    rb = RigidBody(
        2.0,
        np.diag([1.0, 2.0, 3.0]),
        q0=np.array([0.1, 0.2, 1.0, *(p / np.linalg.norm(p))]),
        u0=np.array([800.0, -200.0, 100.0, 10.0, 20.0, 30.0]),  # projectile
        name="rb",
    )
    pm = PointMass(1.0, q0=np.array([1.0, 0.0, 0.5]), u0=np.array([0.0, 300.0, 0.0]), name="pm")
    system.add(rb, pm, Force(np.array([0, 0, -9.81]), pm, name="g_pm"), Force(np.array([0, 0, -19.62]), rb, name="g_rb"))
    system.assemble()
    sol = Moreau(system, t1, dt).solve()
    e = Export(tempfile.mkdtemp(), "vtk", True, fps, sol)
    e.export_contr(pm)
    frames_t = np.asarray(e.solution.t)
    spacing = np.min(np.diff(frames_t))

    ds = minidom.parse(str(e.path / "pm.pvd")).getElementsByTagName("DataSet")
    labels = [x.getAttribute("timestep") for x in ds]
    files = [e.path / x.getAttribute("file") for x in ds]
    listed = np.array([float(s) for s in labels])

    problems = []
    if len(ds) != len(frames_t):
        problems.append(f"{len(ds)} entries for {len(frames_t)} frames")
    if not all(f.exists() for f in files):
        problems.append("listed file missing")
    n_not_increasing = int(np.sum(np.diff(listed) <= 0))
    if n_not_increasing:
        problems.append(f"{n_not_increasing} of {len(listed) - 1} consecutive entries do not increase in time")
    n_distinct = len(set(labels))
    if n_distinct != len(labels):
        problems.append(f"only {n_distinct} distinct timestep values for {len(labels)} frames")
    # the geometry in file i is the state at frames_t[i] ...
    for i, f in enumerate(files):
        assert np.allclose(read_points(f)[0], e.solution.q[i][pm.qDOF], rtol=1e-6, atol=0)
    # ... so the label has to be frames_t[i]
    err = np.max(np.abs(listed - frames_t))
    if err > 1e-3 * spacing:
        problems.append(f"timestep labels deviate from the frame times by up to {err:.3e} = {err / spacing:.2f} frame spacings")

    print(f"t0={t0}, dt={dt}, {nsteps} steps, fps={fps:g}: {len(frames_t)} exported frames, spacing {spacing:.3e}")
    print("   first labels:", labels[:8], "...")
    print("   frame times :", [f"{t:.9f}" for t in frames_t[:8]], "...")
    for pr in problems:
        print("   VIOLATION:", pr)
    if not problems:
        print("   ok")
    return len(problems)


nviol = 0
# control: ordinary time scale, passes
nviol += run(t0=0.0, dt=1e-2, nsteps=50, fps=100)
# microsecond-scale simulations
nviol += run(t0=0.0, dt=1e-7, nsteps=200, fps=1e7)      # every step exported
nviol += run(t0=0.0, dt=1e-7, nsteps=400, fps=2.5e6)    # every 4th step exported
nviol += run(t0=0.5, dt=2.5e-7, nsteps=100, fps=4e6)    # non-zero initial time

if nviol:
    print(f"\nFAIL: {nviol} violations of 'collection lists the files in time order with the frame times'.")
    sys.exit(1)
print("\nPASS")
sys.exit(0)
