"""C20 finding 3: the Solution of a system that contains a Sensor
(cardillo.utility.sensor.Sensor, added with system.add(...) as in
examples/double_pendulum/double_pendulum.py) cannot be saved:
Solution.save / save_solution raise PicklingError for every solver.

Run:  cd /tmp/seed4/C20 && PYTHONPATH=/tmp/seed4/C20 /venv/bin/python /tmp/seed5/out/C20/3/demo.py
Exit code 0 iff every solution can be saved and loaded with all fields preserved.
"""
import contextlib, io, os, sys, tempfile, warnings
import numpy as np

import cardillo
from cardillo import System
from cardillo.discrete import RigidBody
from cardillo.forces import Force
from cardillo.constraints import Revolute
from cardillo.utility.sensor import Sensor, SensorRecords
from cardillo.solver import (Moreau, BackwardEuler, Rattle, DualStormerVerlet,
                             ScipyIVP, ScipyDAE, Newton, load_solution)

print("cardillo.__file__ =", cardillo.__file__)
warnings.simplefilter("ignore")


def pendulum(with_sensor):
    system = System()
    link = RigidBody(1.0, np.eye(3), q0=RigidBody.pose2q(np.array([0.0, 1.0, 0.0]), np.eye(3)),
                     u0=np.zeros(6), name="link")
    system.add(link, Revolute(system.origin, link, axis=0, r_OJ0=np.zeros(3), name="joint"),
               Force(np.array([0.0, 0.0, -10.0]), link, name="gravity"))
    if with_sensor:
        system.add(Sensor(link, name="Link_COM"))
    system.assemble()
    return system


def quiet(f):
    with contextlib.redirect_stdout(io.StringIO()), contextlib.redirect_stderr(io.StringIO()):
        return f()


def roundtrip(sol, fn):
    sol.save(fn)
    sol2 = load_solution(fn)
    bad = []
    for k, v in sol.__dict__.items():
        if k in ("system", "solver_summary"):
            continue
        w = getattr(sol2, k)
        if (v is None and w is not None) or (v is not None and not np.array_equal(v, w)):
            bad.append(k)
    return bad


tmp = tempfile.mkdtemp(prefix="tmp_", dir=os.path.dirname(os.path.abspath(__file__)))
runs = [(S.__name__, (lambda s, S=S: S(s, 3e-3, 1e-3).solve()))
        for S in (Moreau, BackwardEuler, Rattle, DualStormerVerlet, ScipyIVP, ScipyDAE)]

failures = 0
for with_sensor in (False, True):
    print(f"\n-- pendulum {'WITH' if with_sensor else 'without'} a Sensor in the system --")
    for name, run in runs:
        system = pendulum(with_sensor)
        sol = quiet(lambda: run(system))
        fn = os.path.join(tmp, f"{name}_{with_sensor}.pkl")
        try:
            bad = roundtrip(sol, fn)
            msg = "all fields preserved" if not bad else f"fields not preserved: {bad}"
            failures += bool(bad)
        except Exception as e:
            failures += 1
            size = os.path.getsize(fn) if os.path.exists(fn) else None
            msg = f"SAVE/LOAD FAILED -> {type(e).__name__}: {e} (file left behind: {size} bytes)"
        print(f"{name:18s} nt={len(sol.t)}: {msg}")

print(f"\nname of the enum bound to cardillo.utility.sensor.SensorRecords: {SensorRecords.__name__!r}")
print(f"{failures} solutions could not be saved and restored")
import shutil; shutil.rmtree(tmp, ignore_errors=True)
sys.exit(1 if failures else 0)
