"""C17 finding 1: the accelerations and multipliers that ScipyIVP reports
depend on the spacing of the output grid (a posteriori evaluation loses the
turns of revolute joints) and then violate the equations of motion.

System: one rigid body on a Revolute joint (axis e_z through its centre of
mass, principal axes), a linear torsional spring k on the joint angle, no other
forces.  Closed form:  Theta_z * phi_ddot = -k * phi,
    phi(t) = omega0 / Om * sin(Om t),  omega(t) = omega0 cos(Om t),
    omega_dot(t) = -omega0 * Om * sin(Om t),   Om = sqrt(k / Theta_z),
    spring moment la_c(t) = -k * phi(t).
With omega0 = 20 rad/s the joint makes a bit more than two turns in 1 s.

Run as:  cd /tmp/seed4/C17 && PYTHONPATH=/tmp/seed4/C17 /venv/bin/python demo.py
"""
import sys, io, contextlib, warnings
import numpy as np

import cardillo
from cardillo import System
from cardillo.discrete import RigidBody
from cardillo.constraints import Revolute
from cardillo.force_laws import Spring
from cardillo.solver import ScipyIVP

print("cardillo imported from", cardillo.__file__)
warnings.filterwarnings("ignore")

k, Theta_z, omega0, t1 = 1.0, 0.5, 20.0, 1.0
Om = np.sqrt(k / Theta_z)


def run(dt, compliance_form):
    system = System()
    rb = RigidBody(
        1.0,
        np.diag([1.0, 2.0, Theta_z]),
        q0=np.array([0, 0, 0, 1, 0, 0, 0], dtype=float),
        u0=np.array([0, 0, 0, 0, 0, omega0], dtype=float),
    )
    joint = Revolute(system.origin, rb, axis=2)
    spring = Spring(joint, k=k, l_ref=0.0, compliance_form=compliance_form)
    system.add(rb, joint, spring)
    with contextlib.redirect_stdout(io.StringIO()), contextlib.redirect_stderr(io.StringIO()):
        system.assemble()
        sol = ScipyIVP(system, t1, dt).solve()  # defaults: RK45, rtol=1e-8, atol=1e-10
    return system, sol


bad = False
for compliance_form in (False, True):
    print(f"\n=== torsional spring, compliance_form={compliance_form} ===")
    for dt in (0.01, 0.2):
        system, sol = run(dt, compliance_form)
        t = sol.t
        om_exact = omega0 * np.cos(Om * t)
        omdot_exact = -omega0 * Om * np.sin(Om * t)
        lac_exact = -k * omega0 / Om * np.sin(Om * t)
        err_u = np.abs(sol.u[:, 5] - om_exact).max()
        err_udot = np.abs(sol.u_dot[:, 5] - omdot_exact)
        # residual of the equation of motion about e_z with the exact spring moment
        # (Theta_z * omega_dot = -k * phi), evaluated with the reported u_dot
        eom = np.abs(Theta_z * sol.u_dot[:, 5] - lac_exact)
        print(f"output step dt={dt}: max |omega - exact| = {err_u:.2e}   "
              f"max |u_dot_reported - exact| = {err_udot.max():.3e}   "
              f"max EoM residual = {eom.max():.3e}")
        if compliance_form:
            err_la = np.abs(sol.la_c[:, 0] - lac_exact)
            print(f"                   max |la_c_reported - exact| = {err_la.max():.3e}")
        if dt == 0.2:
            for ti, a, b in zip(t, sol.u_dot[:, 5], omdot_exact):
                print(f"     t={ti:.1f}  u_dot_z reported {a: .5f}   exact {b: .5f}")
        # the trajectory itself is accurate to ~1e-6, the reported
        # accelerations must be as well
        if err_udot.max() > 1e-3 or eom.max() > 1e-3:
            bad = True

if bad:
    print("\nFAIL: u_dot / la_c reported by ScipyIVP do not satisfy the equations of motion "
          "at the output times (error k*2*pi/Theta_z = %.3f per lost turn)" % (k * 2 * np.pi / Theta_z))
    sys.exit(1)
print("\nOK")
