"""C20 finding 2: with a non-zero initial time that is large compared to the
simulated span, every fixed-step solver takes one step too many although the
final time is an exact decimal multiple of the step: the grid point
t0 + n*dt already equals t1 (as a float), yet the grid goes on to t1 + dt.

Run:  cd /tmp/seed4/C20 && PYTHONPATH=/tmp/seed4/C20 /venv/bin/python /tmp/seed5/out/C20/2/demo.py
Exit code 0 iff every returned grid ends at its first point >= t1.
"""
import contextlib, io, sys, warnings
import numpy as np

import cardillo
from cardillo import System
from cardillo.discrete import PointMass
from cardillo.forces import Force
from cardillo.solver import (Moreau, BackwardEuler, Rattle, DualStormerVerlet,
                             ScipyIVP, ScipyDAE, compute_time_grid)

print("cardillo.__file__ =", cardillo.__file__)
warnings.simplefilter("ignore")


def system_at(t0):
    s = System(t0=t0)
    pm = PointMass(1.0, q0=np.zeros(3), u0=np.array([1.0, 0.0, 0.0]), name="pm")
    s.add(pm, Force(np.array([0.0, 0.0, -10.0]), pm, name="g"))
    s.assemble()
    return s


def quiet(f):
    with contextlib.redirect_stdout(io.StringIO()), contextlib.redirect_stderr(io.StringIO()):
        return f()


# (t0, dt, number of steps n, t1 typed as the decimal number t0 + n*dt)
cases = [
    (86400.0, 1e-4, 10, 86400.001),      # one day of simulated time, then 1 ms with dt = 0.1 ms
    (3600.0, 1e-5, 10, 3600.0001),       # one hour, then 0.1 ms with dt = 10 us
    (1.0e6, 1e-3, 3, 1000000.003),
    (31536000.0, 0.1, 3, 31536000.3),    # one year in seconds, three steps of 0.1 s
]
solvers = [Moreau, BackwardEuler, Rattle, DualStormerVerlet, ScipyIVP, ScipyDAE]

violations = 0
print("\n-- the shared helper cardillo.solver.compute_time_grid --")
for t0, dt, n, t1 in cases:
    g = compute_time_grid(t0, t1, dt)
    first = int(np.argmax(g >= t1))  # first grid point at or after t1
    ok = first == len(g) - 1
    violations += not ok
    print(f"t0={t0!r} dt={dt!r} t1={t1!r}: (t1-t0)/dt={(t1 - t0) / dt!r}; steps taken={len(g) - 1}, expected {n}; "
          f"g[{first}]={g[first]!r} >= t1 already (g[{first}]==t1: {g[first] == t1}), grid ends at g[-1]={g[-1]!r}"
          f"  {'ok' if ok else 'ONE STEP TOO MANY'}")

print("\n-- every solver, t0=86400.0, t1=86400.001, dt=1e-4 (10 steps requested) --")
t0, dt, n, t1 = cases[0]
for S in solvers:
    system = system_at(t0)
    sol = quiet(lambda: S(system, t1, dt).solve())
    t = sol.t
    # tolerance of a few ulp for the solvers that accumulate tn + dt
    tol = 8 * np.spacing(t1)
    first = int(np.argmax(t >= t1 - tol))
    ok = (first == len(t) - 1) and t[0] == t0
    violations += not ok
    print(f"{S.__name__:18s} rows={len(t)} (expected {n + 1}); t[{first}]-t1={t[first] - t1:+.3e}; "
          f"t[-1]-t1={t[-1] - t1:+.3e} (dt={dt}); q rows={sol.q.shape[0]}  {'ok' if ok else 'ONE STEP TOO MANY'}")

print("\n-- control: same span and step at t0 = 0 --")
for S in solvers:
    system = system_at(0.0)
    sol = quiet(lambda: S(system, 0.001, 1e-4).solve())
    print(f"{S.__name__:18s} rows={len(sol.t)} (expected 11), t[-1]={sol.t[-1]!r}")

print(f"\n{violations} violations")
sys.exit(1 if violations else 0)
