"""C14 / finding 1: System.set_tau gives every actuator the input slice of the LAST actuator.

Run:  cd /tmp/seed4/C14 && PYTHONPATH=/tmp/seed4/C14 /venv/bin/python /tmp/seed5/out/C14/1/demo.py
"""
import sys, io, contextlib
import numpy as np
import cardillo

print("cardillo.__file__ =", cardillo.__file__)

from cardillo import System
from cardillo.discrete import RigidBody
from cardillo.constraints import Revolute
from cardillo.actuators import Motor, PDcontroller


def build(kinds):
    system = System()
    acts = []
    for i, kind in enumerate(kinds):
        body = RigidBody(
            1.0, np.eye(3), q0=np.array([2.0 * i, 0, 0, 1, 0, 0, 0]), name=f"body{i}"
        )
        joint = Revolute(
            system.origin, body, axis=2, r_OJ0=np.array([2.0 * i, 0, 0]), name=f"joint{i}"
        )
        if kind == "motor":
            act = Motor(joint, float(i + 1))
        else:
            act = PDcontroller(joint, 1.0, 1.0, np.array([0.0, 0.0]))
        act.name = f"actuator{i}"
        system.add(body, joint, act)
        acts.append(act)
    with contextlib.redirect_stdout(io.StringIO()):
        system.assemble()
    return system, acts


failures = 0

# ---------------------------------------------------------------- three motors
system, acts = build(["motor"] * 3)
t = 0.7
print("\nthree motors, ntau =", system.ntau, " tauDOF =", [a.tauDOF.tolist() for a in acts])
print("before set_tau: system.tau(t) =", system.tau(t), "(constructor values 1, 2, 3)")

for label, tau in [
    ("array", np.array([10.0, 20.0, 30.0])),
    ("callable", lambda t: np.array([10.0, 20.0, 30.0]) * t),
]:
    expected = tau(t) if callable(tau) else tau
    system.set_tau(tau)
    got_tau = system.tau(t)
    got_la_tau = system.la_tau(t, system.q0, system.u0)
    got_local = [np.atleast_1d(a.tau(t)).tolist() for a in acts]
    print(f"\nset_tau({label}): expected system.tau(t)   = {expected}")
    print(f"                  observed system.tau(t)   = {got_tau}")
    print(f"                  observed system.la_tau   = {got_la_tau}  (Motor: la_tau = tau)")
    print(f"                  per-actuator contr.tau(t) = {got_local}")
    if not np.allclose(got_tau, expected) or not np.allclose(got_la_tau, expected):
        failures += 1
        print("  -> MISMATCH: the global input vector is not scattered to the actuators' tauDOF")

# the generalized force that the solvers use
W_tau = system.W_tau(t, system.q0, format="array")
f_got = W_tau @ system.la_tau(t, system.q0, system.u0)
f_exp = W_tau @ (np.array([10.0, 20.0, 30.0]) * t)
print("\nmax |W_tau la_tau - expected generalized actuator force| =", np.max(np.abs(f_got - f_exp)))

# ------------------------------------------ actuators with different input sizes
system, acts = build(["motor", "pd"])
print("\nmotor + PD controller, ntau =", system.ntau, " tauDOF =", [a.tauDOF.tolist() for a in acts])
system.set_tau(np.array([5.0, 0.3, 0.1]))
try:
    got = system.tau(0.0)
    print("system.tau(0) =", got)
    if not np.allclose(got, [5.0, 0.3, 0.1]):
        failures += 1
except Exception as e:
    failures += 1
    print("system.tau(0) raised", repr(e))

print("\nfailures:", failures)
sys.exit(1 if failures else 0)
