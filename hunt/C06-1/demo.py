"""C06 / finding 1: System.chi_N (partial time derivative of the normal gaps,
i.e. g_N_dot(t, q, u=0)) cannot be evaluated at all - it raises TypeError for
every system, with or without contacts.

Run:  cd /tmp/seed4/C06 && PYTHONPATH=/tmp/seed4/C06 /venv/bin/python demo.py
Exit code 0 <=> chi_N exists and equals d g_N / d t at frozen q for all tested systems.
"""
import sys
import warnings
import numpy as np

warnings.filterwarnings("ignore")
import cardillo

print("cardillo.__file__ =", cardillo.__file__)
from cardillo import System
from cardillo.discrete import Frame, PointMass, RigidBody
from cardillo.contacts import Sphere2Plane, Sphere2Sphere
from cardillo.solver import SolverOptions

opts = SolverOptions(compute_consistent_initial_conditions=False)
bad = 0


def build(kind):
    system = System(t0=0.0)
    a = np.array([0.3, -0.2, 0.5])
    # translating plane, constant (tilted) orientation, analytic derivatives
    c, s = np.cos(0.3), np.sin(0.3)
    A = np.array([[c, 0, s], [0, 1, 0], [-s, 0, c]])
    plane = Frame(
        r_OP=lambda t: a * np.sin(t),
        r_OP_t=lambda t: a * np.cos(t),
        r_OP_tt=lambda t: -a * np.sin(t),
        A_IB=A,
        name="plane",
    )
    system.add(plane)
    if kind == "none":
        system.add(PointMass(1.0, q0=np.array([0.0, 0.0, 3.0])))
    elif kind == "sphere2plane":
        pm = PointMass(1.0, q0=np.array([0.0, 0.0, 3.0]))
        system.add(pm, Sphere2Plane(plane, pm, mu=0.3, r=0.2))
    elif kind == "sphere2sphere":
        rb = RigidBody(1.0, np.eye(3), q0=np.array([0, 0, 3.0, 1, 0, 0, 0]))
        mover = Frame(
            r_OP=lambda t: np.array([2.0 + np.sin(t), 0.0, 3.0]),
            r_OP_t=lambda t: np.array([np.cos(t), 0.0, 0.0]),
            r_OP_tt=lambda t: np.array([-np.sin(t), 0.0, 0.0]),
            name="mover",
        )
        system.add(rb, mover, Sphere2Sphere(rb, mover, 0.3, 0.2, 0.4))
    system.assemble(options=opts)
    return system


for kind in ["none", "sphere2plane", "sphere2sphere"]:
    system = build(kind)
    t = 0.4
    q = system.q0 + 0.05
    # reference: partial time derivative of the gap at frozen q (central difference)
    h = 1e-6
    ref = (system.g_N(t + h, q) - system.g_N(t - h, q)) / (2 * h)
    ref2 = system.g_N_dot(t, q, np.zeros(system.nu))
    try:
        val = system.chi_N(t, q)
        err = np.max(np.abs(val - ref), initial=0.0)
        print(f"[{kind:13s}] chi_N = {val}, d g_N/dt (FD) = {ref}, err = {err:.2e}")
        if err > 1e-6:
            bad += 1
    except NotImplementedError:
        print(f"[{kind:13s}] chi_N declared unimplemented (acceptable)")
    except Exception as e:
        bad += 1
        print(
            f"[{kind:13s}] system.chi_N(t, q) FAILED with {type(e).__name__}: {e}\n"
            f"{'':16s}expected g_N_dot(t, q, 0) = {ref2}  (FD of g_N in t: {ref})"
        )

if bad:
    print(f"\nVIOLATION: System.chi_N failed / was wrong in {bad} of 3 systems")
    sys.exit(1)
print("\nOK")
sys.exit(0)
