"""C21 finding 2: DualStormerVerlet (and the static Newton solver) silently ignore
actuator forces W_tau @ la_tau (Motor / PDcontroller / PIDcontroller): the part of the
model they cannot treat is dropped without warning or error.

Run:  cd /tmp/seed4/C21 && PYTHONPATH=/tmp/seed4/C21 /venv/bin/python /tmp/seed5/out/C21/2/demo.py
Exit 0: the solvers either apply the motor torque, or warn / raise about the actuator.
Exit 1: a solver returned the motor-free result without any message.
"""
import contextlib
import io
import re
import sys
import warnings

import numpy as np

import cardillo
from cardillo import System
from cardillo.actuators import Motor
from cardillo.constraints import Revolute
from cardillo.discrete import RigidBody
from cardillo.forces import Force
from cardillo.math import A_IB_basic
from cardillo.solver import (
    DualStormerVerlet,
    Moreau,
    Rattle,
    BackwardEuler,
    Newton,
    SolverOptions,
)

print("cardillo.__file__ =", cardillo.__file__)

L, MASS = 1.0, 1.0
THETA_O = MASS * L**2 / 12 + MASS * (L / 2) ** 2  # inertia about the joint = 1/3
pattern = re.compile(r"actuator|motor|tau|ignor|cannot treat|controller", re.I)


def pendulum(tau, gravity, phi0):
    """Rod of length L on a revolute joint (z-axis) at the origin, driven by a Motor."""
    system = System()
    A0 = A_IB_basic(phi0).z
    q0 = RigidBody.pose2q(A0 @ np.array([L / 2, 0, 0.0]), A0)
    body = RigidBody(MASS, np.eye(3) * MASS * L**2 / 12, q0=q0, u0=np.zeros(6), name="rod")
    joint = Revolute(system.origin, body, axis=2, name="joint")
    system.add(body, joint)
    if gravity:
        system.add(Force(np.array([0, -gravity * MASS, 0.0]), body, name="gravity"))
    system.add(Motor(joint, tau))
    with contextlib.redirect_stdout(io.StringIO()):
        system.assemble()
    return system


def call(fun):
    sol, exc = None, None
    with warnings.catch_warnings(record=True) as w:
        warnings.simplefilter("always")
        try:
            with contextlib.redirect_stdout(io.StringIO()), contextlib.redirect_stderr(
                io.StringIO()
            ):
                sol = fun()
        except Exception as e:
            exc = e
    return sol, [str(x.message) for x in w], exc


bad = []

# ---------------------------------------------------------------- dynamics
TAU = 1.0
omega_exact = TAU / THETA_O * 1.0  # no gravity: omega(t=1) = tau / theta_O * t = 3
print(f"[dynamics] motor torque {TAU} on the joint, no gravity: exact omega_z(1) = {omega_exact}")
for cls, kwargs in [
    (Moreau, {}),
    (BackwardEuler, {}),
    (Rattle, {}),
    (DualStormerVerlet, dict(linear_solver="MINRES (matrix free)")),
    (DualStormerVerlet, dict(linear_solver="LU")),
]:
    system = pendulum(TAU, 0.0, 0.0)
    sol, w, exc = call(lambda: cls(system, 1.0, 1e-2, **kwargs).solve())
    name = f"{cls.__name__}{kwargs if kwargs else ''}"
    if exc is not None:
        print(f"  {name}: raised {exc!r} -> not silent")
        continue
    omega = sol.u[-1, 5]
    told = [m for m in w if pattern.search(m)]
    treated = abs(omega - omega_exact) < 0.1 * omega_exact
    print(f"  {name}: nla_tau = {system.nla_tau}, omega_z(1) = {omega:.6f}, warnings = {w}")
    if not treated and not told:
        print(f"    -> motor torque dropped (omega error {abs(omega - omega_exact):.3f} rad/s = 100 %) without any message")
        bad.append(name)

# ---------------------------------------------------------------- statics
TAU_S, GRAV = 2.5, 10.0
phi_eq = np.arcsin(TAU_S / (MASS * GRAV * L / 2))  # angle from the hanging position = 30 deg
r_exact = (L / 2) * np.array([np.sin(phi_eq), -np.cos(phi_eq), 0.0])
print(f"[statics] gravity + motor torque {TAU_S}: exact equilibrium r_OC = {r_exact}")
system = pendulum(TAU_S, GRAV, np.deg2rad(-60.0))
sol, w, exc = call(
    lambda: Newton(system, n_load_steps=5, verbose=False, options=SolverOptions(newton_max_iter=50)).solve()
)
if exc is not None:
    print(f"  Newton: raised {exc!r} -> not silent")
else:
    r = sol.q[-1, :3]
    told = [m for m in w if pattern.search(m)]
    treated = np.linalg.norm(r - r_exact) < 0.02
    print(f"  Newton: {len(sol.t)} load steps returned, r_OC = {r}, warnings = {w}")
    if not treated and not told:
        print(f"    -> motor torque dropped (equilibrium off by {np.linalg.norm(r - r_exact):.3f} m; hanging position returned) without any message")
        bad.append("Newton")

if bad:
    print("FAIL: actuator forces silently ignored by:", bad)
    sys.exit(1)
print("PASS")
sys.exit(0)
