"""C19 finding 2: with the default SolverOptions RATTLE's energy error grows linearly in
time and, for small step sizes, the time stepping stalls completely (the state of step n
is accepted as the solution of step n+1 without a single Newton iteration).

System: mathematical pendulum, SI units, length 1 cm, mass 1 g (PointMass + FixedDistance
+ gravity), released at rest at 1 rad.  Second case: 1 g on a 1 m string, released
horizontally.

Run:  cd /tmp/seed4/C19 && PYTHONPATH=/tmp/seed4/C19 /venv/bin/python /tmp/seed5/out/C19/2/demo.py
"""
import sys, io, contextlib, time
import numpy as np
import cardillo
from cardillo import System
from cardillo.discrete import PointMass
from cardillo.constraints import FixedDistance
from cardillo.forces import Force
from cardillo.solver import Rattle, SolverOptions

print("cardillo.__file__ =", cardillo.__file__)
grav = 9.81


def quiet(f):
    buf = io.StringIO()
    with contextlib.redirect_stdout(buf), contextlib.redirect_stderr(buf):
        return f()


def pendulum(m, L, th0):
    system = System()
    pm = PointMass(m, q0=L * np.array([np.sin(th0), 0.0, -np.cos(th0)]), u0=np.zeros(3))
    system.add(pm, FixedDistance(system.origin, pm), Force(np.array([0.0, 0.0, -m * grav]), pm))
    quiet(system.assemble)
    return system


def simulate(m, L, th0, dt, t1, options):
    system = pendulum(m, L, th0)
    sol = quiet(lambda: Rattle(system, t1, dt, options=options).solve())
    E = m * grav * sol.q[:, 2] + 0.5 * m * np.einsum("ij,ij->i", sol.u, sol.u)
    e = (E - E[0]) / (m * grav * L)  # energy error relative to m g L
    theta = np.arctan2(sol.q[:, 0], -sol.q[:, 2])
    return sol, e, theta


def quarters(e):
    n = len(e)
    return [np.abs(e[i * n // 4:(i + 1) * n // 4]).max() for i in range(4)]


t_start = time.time()
fail = []
m, L, th0 = 1e-3, 1e-2, 1.0
period = 2 * np.pi * np.sqrt(L / grav)  # small-angle period, 0.2 s
default = SolverOptions()
tight = SolverOptions(newton_atol=1e-12, newton_rtol=1e-12)
print(f"pendulum L = {L} m, m = {m} kg, theta0 = {th0} rad; default newton_atol = {default.newton_atol}")

res = {}
for label, opt, nper, nperiods in (("tight  ", tight, 100, 20), ("tight  ", tight, 200, 20),
                                   ("default", default, 100, 20), ("default", default, 200, 20)):
    dt = period / nper
    sol, e, theta = simulate(m, L, th0, dt, nperiods * period, opt)
    qs = quarters(e)
    res[(label, nper)] = qs
    print(f"  {label} options, dt = {dt:.3e} ({nper} steps/period, {nperiods} periods): "
          f"max|E-E0|/(m g L) per quarter of the run: " + " ".join(f"{x:.3e}" for x in qs))

for nper in (100, 200):
    growth_t = res[("tight  ", nper)][3] / res[("tight  ", nper)][0]
    growth_d = res[("default", nper)][3] / res[("default", nper)][0]
    print(f"  {nper} steps/period: last/first quarter  tight {growth_t:.3f}   default {growth_d:.3f};"
          f"  default/tight error level {res[('default', nper)][3]/res[('tight  ', nper)][3]:.1f}")
    if growth_d > 1.2:
        fail.append(f"secular growth of the energy error with default options ({nper} steps/period: x{growth_d:.2f} within 20 periods)")
r_t = max(res[("tight  ", 100)]) / max(res[("tight  ", 200)])
r_d = max(res[("default", 100)]) / max(res[("default", 200)])
print(f"  error(dt)/error(dt/2): tight {r_t:.2f}, default {r_d:.2f}")

# small step: 800 steps per period, one period
dt = period / 800
sol, e, theta = simulate(m, L, th0, dt, period, default)
print(f"  default options, dt = {dt:.3e} (800 steps/period), one period: theta in [{theta.min():.6f}, {theta.max():.6f}],"
      f" max|q - q0| = {np.abs(sol.q - sol.q[0]).max():.3e}, u_end = {sol.u[-1]}")
sol_t, e_t, theta_t = simulate(m, L, th0, dt, period, tight)
print(f"  tight   options, same dt:                                theta in [{theta_t.min():.6f}, {theta_t.max():.6f}]")
if theta.min() > 0.0:
    fail.append(f"pendulum of 1 cm / 1 g does not move at all at dt = {dt:.2e} with default options")

# 1 g on a 1 m string, horizontal release, dt = 1e-4: 500 steps = 0.05 s, exact drop 12.3 mm
sol, e, theta = simulate(1e-3, 1.0, np.pi / 2, 1e-4, 0.05, default)
sol_t, _, _ = simulate(1e-3, 1.0, np.pi / 2, 1e-4, 0.05, tight)
print(f"  L = 1 m, m = 1 g, dt = 1e-4, t = 0.05: z(default) = {sol.q[-1,2]:.6e}, z(tight) = {sol_t.q[-1,2]:.6e},"
      f" free fall -g t^2/2 = {-0.5*grav*0.05**2:.6e}")
if abs(sol.q[-1, 2]) < 1e-3:
    fail.append("pendulum of 1 m / 1 g does not move at dt = 1e-4 with default options")

print(f"run time {time.time()-t_start:.0f} s")
if fail:
    print("FAIL:")
    for f in fail:
        print("  -", f)
    sys.exit(1)
print("PASS")
sys.exit(0)
