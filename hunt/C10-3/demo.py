"""C10 finding 3: legitimate internal-constraint *sets* for which no rod can be built.

make_CosseratRod documents `constraints : array_like - Set of numbers between 0 and 5`.
 (a) a numpy array with two or more entries (the archetypal array_like; make_CosseratRod
     itself validates the argument with np.array(constraints)) -> ValueError
     "The truth value of an array with more than one element is ambiguous"
 (b) the empty set ([] / () / empty array, e.g. in a loop over all subsets of {0..5})
     -> ValueError "need at least one array to concatenate" (from Mesh1D) resp. the
     ambiguous-truth-value error.
For these sets the property (stress-free reference, objectivity, zero resultant) cannot
even be evaluated, although the equivalent list input / constraints=None works.

Run:  cd /tmp/seed4/C10 && PYTHONPATH=/tmp/seed4/C10 /venv/bin/python /tmp/seed5/out/C10/3/demo.py
"""
import sys
import warnings
import numpy as np

warnings.filterwarnings("ignore")
import cardillo

print("cardillo.__file__ =", cardillo.__file__)

from cardillo.rods import RectangularCrossSection, Simo1986
from cardillo.rods.cosseratRod import make_CosseratRod
from cardillo.math import Exp_SO3, quatprod, axis_angle2quat


def rigid(rod, q, psi, t):
    angle = np.linalg.norm(psi)
    R = Exp_SO3(psi)
    pR = axis_angle2quat(psi / angle, angle)
    q2 = q.copy()
    for dof in rod.nodalDOF_r:
        q2[dof] = R @ q[dof] + t
    for dof in rod.nodalDOF_p:
        q2[dof] = quatprod(pR, q[dof])
    return q2


def evaluate(interpolation, mixed, constraints):
    """build the rod and return the quantities the property talks about"""
    p = 1 if interpolation == "SE3" else 2
    Rod = make_CosseratRod(
        interpolation=interpolation, mixed=mixed, constraints=constraints, polynomial_degree=p
    )
    nelement = 2
    phi = np.pi / 3
    r_OP = lambda xi: 2 * np.array([np.sin(phi * xi), 1 - np.cos(phi * xi), 0.0])
    A_IB = lambda xi: np.array(
        [[np.cos(phi * xi), -np.sin(phi * xi), 0], [np.sin(phi * xi), np.cos(phi * xi), 0], [0, 0, 1.0]]
    )
    Q = Rod.pose_configuration(nelement, r_OP, A_IB)
    rod = Rod(
        RectangularCrossSection(0.1, 0.05),
        Simo1986(np.array([5.0, 1.0, 2.0]), np.array([0.5, 2.0, 3.0])),
        nelement,
        Q=Q,
    )
    rod.assembler_callback()
    u0 = np.zeros(rod.nu)
    rng = np.random.default_rng(3)
    q = rod.Q + 0.05 * rng.standard_normal(rod.nq)
    q2 = rigid(rod, q, np.array([0.4, -0.9, 0.3]), np.array([1.0, -2.0, 0.5]))
    out = dict(E_ref=rod.E_pot(0, rod.Q), E=rod.E_pot(0, q), E_moved=rod.E_pot(0, q2))
    out["h_ref"] = np.abs(rod.h(0, rod.Q, u0)).max()
    if hasattr(rod, "la_c"):
        out["la_c_ref"] = np.abs(rod.la_c(0, rod.Q, u0)).max()
        out["la_c"] = rod.la_c(0, q, u0)
        out["la_c_moved"] = rod.la_c(0, q2, u0)
    if hasattr(rod, "g"):
        out["g_ref"] = rod.g(0, rod.Q)
        out["g"] = rod.g(0, q)
        out["g_moved"] = rod.g(0, q2)
    return out


def same(a, b):
    if set(a) != set(b):
        return False
    return all(np.allclose(a[k], b[k], rtol=1e-9, atol=1e-12) for k in a)


failures = 0
cases = [
    # (label, argument under test, equivalent argument that is known to work)
    ("np.array([1, 2])", np.array([1, 2]), [1, 2]),
    ("np.array([0, 1, 2])", np.array([0, 1, 2]), [0, 1, 2]),
    ("np.arange(6)", np.arange(6), [0, 1, 2, 3, 4, 5]),
    ("[] (empty set)", [], None),
    ("() (empty set)", (), None),
    ("np.array([], dtype=int)", np.array([], dtype=int), None),
]
for interpolation in ["Quaternion", "SE3", "R12"]:
    for mixed in [True, False]:
        for label, arg, equivalent in cases:
            ref = evaluate(interpolation, mixed, equivalent)
            tag = f"{interpolation:10s} mixed={mixed!s:5} constraints={label:24s}"
            try:
                res = evaluate(interpolation, mixed, arg)
            except Exception as e:
                failures += 1
                print(f"{tag}: {type(e).__name__}: {e}")
                continue
            # drop empty constraint vectors so that "nla_g = 0" and "no g at all" both count as fine
            res = {k: v for k, v in res.items() if np.size(v)}
            ok = same(res, ref) and abs(res["E_ref"]) < 1e-12 and res["h_ref"] < 1e-12
            print(f"{tag}: built, identical to constraints={equivalent}: {ok}")
            failures += not ok

if failures:
    print(f"\nFAIL: {failures} (formulation, constraint set) combinations cannot be built / differ from the equivalent input")
    sys.exit(1)
print("\nOK")
sys.exit(0)
