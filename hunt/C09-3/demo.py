"""C09 finding 3 (low significance / borderline): a spring attached without l_ref
between two points that are a *legitimate* small distance apart (<= 1e-8 length
units, e.g. 5 nm in SI units) does not assemble: TwoPointInteraction compares the
initial distance with the absolute tolerance IS_CLOSE_ATOL = 1e-8.

Run:  cd /tmp/seed4/C09 && PYTHONPATH=/tmp/seed4/C09 /venv/bin/python /tmp/seed5/out/C09/3/demo.py
Exit code 0 <=> the system assembles and the spring is stress-free for all
tested distances.
"""
import sys
import numpy as np
import cardillo

print("cardillo.__file__ =", cardillo.__file__)

from cardillo import System
from cardillo.discrete import PointMass
from cardillo.interactions import TwoPointInteraction
import cardillo.interactions.two_point_interaction as tpi_module
from cardillo.force_laws import Spring, KelvinVoigtElement, MaxwellElement


def build(L, law):
    system = System()
    pm1 = PointMass(1.0e-15, q0=np.array([0.3, -0.2, 0.1]), name="pm1")
    pm2 = PointMass(1.0e-15, q0=np.array([0.3, -0.2, 0.1]) + L * np.array([0.6, 0.0, 0.8]), name="pm2")
    tpi = TwoPointInteraction(pm1, pm2)
    if law == "Spring":
        fl = Spring(tpi, 1.0e-3)
    elif law == "KelvinVoigt":
        fl = KelvinVoigtElement(tpi, 1.0e-3, 1.0e-6)
    else:
        fl = MaxwellElement(tpi, 1.0e-3, 1.0e-6)
    system.add(pm1, pm2, tpi, fl)
    system.assemble()
    F = float(fl.force(system.t0, system.q0[fl.qDOF], system.u0[fl.uDOF]))
    E = float(fl.E_pot(system.t0, system.q0[fl.qDOF]))
    W = tpi.W_l(system.t0, system.q0[tpi.qDOF])
    return fl.l_ref, F, E, W


failures = []
for L in [1.0, 1e-6, 1e-7, 1e-8, 5e-9, 1e-10]:
    for law in ["Spring", "KelvinVoigt", "Maxwell"]:
        try:
            l_ref, F, E, W = build(L, law)
            print(f"L={L:7.1e} {law:12s} assembled: l_ref={l_ref:.6e} force={F:+.3e} E_pot={E:.3e}")
            if abs(F) > 0 or E > 0:
                failures.append((L, law, "not stress free"))
        except Exception as e:
            print(f"L={L:7.1e} {law:12s} DID NOT ASSEMBLE: {type(e).__name__}: {e}")
            failures.append((L, law, f"{type(e).__name__}: {e}"))

# the rejected configurations are perfectly well conditioned for the code:
# with the guard switched off (what "python -O" does) everything works
print("\nsame configurations with the absolute guard disabled (IS_CLOSE_ATOL := 0 in two_point_interaction):")
old = tpi_module.IS_CLOSE_ATOL
tpi_module.IS_CLOSE_ATOL = 0.0
for L in [1e-8, 5e-9, 1e-10]:
    l_ref, F, E, W = build(L, "Spring")
    print(f"L={L:7.1e} Spring       l_ref={l_ref:.6e} force={F:+.3e} E_pot={E:.3e} W_l={np.round(W, 12)}")
tpi_module.IS_CLOSE_ATOL = old

print()
if failures:
    print("VIOLATED ('the system assembles'):")
    for f in failures:
        print("   ", f)
    sys.exit(1)
print("ok")
sys.exit(0)
