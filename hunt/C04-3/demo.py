"""C04 finding 3: the kinematic functions are not pure - the arrays they return
alias internal state (LRU caches of RigidBody, default arguments of Frame).
Once a caller modifies "his" result in place, later calls with identical
arguments return different values and the kinematic identities of the property
(v_P = r_OP_q q_dot, J_P = d v_P / d u, A_IB orthonormal, Frame at rest) fail.

Run: cd /tmp/seed4/C04 && PYTHONPATH=/tmp/seed4/C04 /venv/bin/python /tmp/seed5/out/C04/3/demo.py
"""
import sys
import numpy as np
import cardillo
from cardillo.discrete import RigidBody, Frame

print("cardillo.__file__ =", cardillo.__file__)
fails = []


def try_inplace(op):
    """perform a caller-side in-place operation; a read-only result (one
    possible repair) is fine, too"""
    try:
        op()
    except ValueError as e:  # read-only array
        print("    (in-place operation refused:", e, ")")


rb = RigidBody(2.0, np.diag([1.0, 2.0, 3.0]))
t = 0.25
q = np.array([0.3, -1.2, 0.7, 0.9, 0.1, -0.4, 0.2])
u = np.array([1.0, -2.0, 0.5, 0.3, 0.7, -1.1])
K = np.array([0.4, 0.2, -0.3])

# ---------------------------------------------------------------
# (a) position of a body point, post-processed by the caller
# ---------------------------------------------------------------
r_first = rb.r_OP(t, q, B_r_CP=K).copy()
r = rb.r_OP(t, q, B_r_CP=K)
try_inplace(lambda: r.__isub__(np.array([10.0, 0.0, 0.0])))  # r -= r_ref: "distance to a reference point"
r_again = rb.r_OP(t, q, B_r_CP=K)
print("(a) r_OP first call      :", r_first)
print("    r_OP same arguments  :", r_again, "  after the caller did  r -= [10, 0, 0]")
if not np.allclose(r_first, r_again, rtol=0, atol=1e-14):
    fails.append(f"(a) r_OP(t, q, B_r_CP) changed by {np.max(np.abs(r_first - r_again))} between two identical calls")

# ---------------------------------------------------------------
# (b) orientation, post-processed by the caller (e.g. scaled triad for plotting)
# ---------------------------------------------------------------
rb2 = RigidBody(2.0, np.diag([1.0, 2.0, 3.0]))
A = rb2.A_IB(t, q)
try_inplace(lambda: A.__imul__(0.1))  # A *= 0.1: "short axes for a plot"
A_again = rb2.A_IB(t, q)
orth = np.max(np.abs(A_again.T @ A_again - np.eye(3)))
v = rb2.v_P(t, q, u, B_r_CP=K)
v_ref = rb2.r_OP_q(t, q, B_r_CP=K) @ rb2.q_dot(t, q, u)
J = rb2.J_P(t, q, B_r_CP=K)
print("(b) max |A^T A - 1| of A_IB(t, q) after the caller did  A *= 0.1 :", orth)
print("    v_P                =", v)
print("    r_OP_q @ q_dot     =", v_ref)
print("    J_P @ u            =", J @ u)
if orth > 1e-12:
    fails.append(f"(b) A_IB(t, q) is no rotation matrix any more (|A^T A - 1| = {orth})")
if not np.allclose(v, v_ref, rtol=0, atol=1e-12):
    fails.append(f"(b) v_P differs from r_OP_q @ q_dot by {np.max(np.abs(v - v_ref))}")

# ---------------------------------------------------------------
# (c) Frame: the default orientation is one array shared by all frames
# ---------------------------------------------------------------
f1 = Frame()
B = f1.A_IB(0.0)
c, s = np.cos(0.5), np.sin(0.5)
try_inplace(lambda: B.__setitem__(slice(None), np.array([[c, -s, 0], [s, c, 0], [0, 0, 1.0]])))
f2 = Frame()  # a brand new frame "at rest in the inertial basis"
print("(c) A_IB of a new default Frame() after the caller overwrote the result of another frame:")
print(f2.A_IB(0.0))
if not np.allclose(f2.A_IB(0.0), np.eye(3)):
    fails.append("(c) a newly created default Frame() is rotated: r_OP(B_r_CP) != B_r_CP")

if fails:
    print("\nVIOLATION:")
    for f in fails:
        print("  -", f)
    sys.exit(1)
print("\nOK")
sys.exit(0)
