"""C24 / finding 3: the joint angle of a Revolute joint (turn counter + last
quadrant) is hidden state that set_new_initial_state can neither set nor
reconstruct.  A copy of the system that is re-initialised with the exact state
of an intermediate step describes another torsional spring (angle off by a
multiple of 2 pi) unless the copy was taken at exactly that step.

run as
  cd /tmp/seed4/C24 && PYTHONPATH=/tmp/seed4/C24 /venv/bin/python /tmp/seed5/out/C24/3/demo.py
"""
import sys, io, contextlib
import numpy as np
import cardillo
from cardillo import System
from cardillo.discrete import RigidBody
from cardillo.constraints import Revolute
from cardillo.force_laws import Spring
from cardillo.math import cross3
from cardillo.solver import Rattle, SolverOptions

print("cardillo.__file__ =", cardillo.__file__)


def quiet(f):
    buf = io.StringIO()
    with contextlib.redirect_stdout(buf), contextlib.redirect_stderr(buf):
        return f()


def build():
    """bar on a revolute joint (axis e_y) with a torsional spring, no gravity, spun up to 40 rad/s"""
    system = System()
    L, m = 0.5, 1.0
    Theta = np.diag([1e-3, m * L**2 / 12, m * L**2 / 12])
    Om = np.array([0, 40.0, 0])
    r_OC = np.array([L / 2, 0, 0])
    body = RigidBody(m, Theta, q0=RigidBody.pose2q(r_OC, np.eye(3)), u0=np.hstack([cross3(Om, r_OC), Om]), name="bar")
    joint = Revolute(system.origin, body, axis=1, angle0=0.0, r_OJ0=np.zeros(3), A_IJ0=np.eye(3), name="joint")
    spring = Spring(joint, 2.0, l_ref=0.0, name="spring")
    system.add(body, joint, spring)
    quiet(system.assemble)
    return system


opts = SolverOptions(newton_atol=1e-12, newton_rtol=1e-12, fixed_point_atol=1e-11, fixed_point_rtol=1e-11)
t1, dt, k = 0.3, 1e-3, 150

# uninterrupted run (also gives the state of every step)
system_ref = build()
system_fresh_copy = system_ref.deepcopy()  # copy taken before the run
sol_ref = quiet(lambda: Rattle(system_ref, t1, dt, options=opts).solve())
joint_pp = build().contributions_map["joint"]
angle = np.array([joint_pp.angle(t, q[joint_pp.qDOF]) for t, q in zip(sol_ref.t, sol_ref.q)])
print(f"joint angle in the uninterrupted run: step {k}: {angle[k]:.4f} rad, last step: {angle[-1]:.4f} rad (max {angle.max():.4f})")


def continue_from(copy, label):
    quiet(lambda: copy.set_new_initial_state(sol_ref.q[k], sol_ref.u[k], t0=sol_ref.t[k]))
    j = copy.contributions_map["joint"]
    la_c0 = copy.la_c0.copy()
    sol2 = quiet(lambda: Rattle(copy, t1, dt, options=opts).solve())
    err = np.max(np.abs(sol2.q - sol_ref.q[k:]))
    print(f"{label:58s}: spring torque at the split state {la_c0[0]:9.4f} (uninterrupted {sol_ref.la_c[k][0]:9.4f}),"
          f" max|q_restart - q_uninterrupted| = {err:.2e}")
    return err


# control: the copy is taken from a system that was simulated exactly to the split time
system_split = build()
sol1 = quiet(lambda: Rattle(system_split, k * dt, dt, options=opts).solve())
assert np.max(np.abs(sol1.q[-1] - sol_ref.q[k])) < 1e-10
err_control = continue_from(system_split.deepcopy(), "copy of the system simulated to the split time (control)")
# (a) copy taken before the simulation
err_a = continue_from(system_fresh_copy, "(a) copy taken before the simulation")
# (b) copy of the system after the run to t1, branching off at step k of its solution
err_b = continue_from(system_ref.deepcopy(), "(b) copy of the system after the run to t1, restart at step k")

if max(err_a, err_b) > 1e-6 or err_control > 1e-6:
    print("\nFAIL: the re-initialised copy does not describe the same spring-loaded joint: its angle is off by a multiple of 2 pi")
    sys.exit(1)
print("OK")
