"""C12 finding 1: the tangent getters hand out the law's internal stiffness
matrices (no copy).  A consumer that post-processes a returned tangent in
place (scaling by the quadrature weight, adding a geometric term) silently
rewrites the material law; afterwards forces are no longer the gradient of the
energy and the complementary energy / compliances are no longer the Legendre
dual.

Run:  cd /tmp/seed4/C12 && PYTHONPATH=/tmp/seed4/C12 /venv/bin/python /tmp/seed5/out/C12/1/demo.py
"""
import sys
import numpy as np
import cardillo
from cardillo.rods import Simo1986, Harsch2021
from cardillo.math import ax2skew

print("cardillo.__file__ =", cardillo.__file__)

G = np.array([1.2, 0.1, -0.2])
G0 = np.array([0.0, 0.0, 2.0])  # non-unit reference dilatation
K = np.array([0.1, 0.2, 0.3])
K0 = np.array([0.3, 0.0, 0.1])


def fd(f, x, h=1e-6):
    cols = []
    for i in range(3):
        e = np.zeros(3)
        e[i] = h
        cols.append((np.asarray(f(x + e)) - np.asarray(f(x - e))) / (2 * h))
    return np.array(cols).T


def property_errors(law):
    """max abs errors of the clauses of the property, by central differences"""
    n = law.B_n(G, G0, K, K0)
    m = law.B_m(G, G0, K, K0)
    err = {
        "n - dW/dGamma": np.max(abs(fd(lambda x: law.potential(x, G0, K, K0), G) - n)),
        "m - dW/dKappa": np.max(abs(fd(lambda x: law.potential(G, G0, x, K0), K) - m)),
        "n_Gamma - dn/dGamma": np.max(
            abs(fd(lambda x: law.B_n(x, G0, K, K0), G) - law.B_n_B_Gamma(G, G0, K, K0))
        ),
        "m_Kappa - dm/dKappa": np.max(
            abs(fd(lambda x: law.B_m(G, G0, x, K0), K) - law.B_m_B_Kappa(G, G0, K, K0))
        ),
    }
    if hasattr(law, "complementary_potential"):
        # Fenchel-Young equality  W + W* = n.dG + m.dK  at conjugate pairs
        W = law.potential(G, G0, K, K0)
        Wc = law.complementary_potential(n, m)
        err["W + W* - (n.dG + m.dK)"] = abs(W + Wc - n @ (G - G0) - m @ (K - K0))
        err["C_n_inv @ n - dG"] = np.max(abs(law.C_n_inv @ n - (G - G0)))
        err["C_m_inv @ m - dK"] = np.max(abs(law.C_m_inv @ m - (K - K0)))
    return n, m, err


TOL = 1e-7
bad = False
for cls in (Simo1986, Harsch2021):
    Ei = np.array([5.0, 1.0, 2.0])
    Fi = np.array([0.5, 2.0, 3.0])
    law = cls(Ei, Fi)
    print(f"\n=== {cls.__name__} ===")
    n0, m0, err0 = property_errors(law)
    print("fresh law, property errors:", {k: float(f"{v:.2e}") for k, v in err0.items()})

    # ---- an ordinary consumer of the public API -------------------------
    # element tangent at one quadrature point: weight the constitutive
    # tangents and add the geometric part, re-using the returned arrays
    Jw = 0.25
    n_G = law.B_n_B_Gamma(G, G0, K, K0)
    m_K = law.B_m_B_Kappa(G, G0, K, K0)
    n_G *= Jw
    m_K *= Jw
    m_K -= ax2skew(law.B_m(G, G0, K, K0))
    # ----------------------------------------------------------------------

    n1, m1, err1 = property_errors(law)
    print("after the consumer ran, same law object, same strain state:")
    print("  B_n before", n0, " after", n1)
    print("  B_m before", m0, " after", m1)
    print("  property errors:", {k: float(f"{v:.2e}") for k, v in err1.items()})
    print("  law.Ei", law.Ei, "diag(C_n)", np.diag(law.C_n), " law.Fi", law.Fi, "C_m\n", law.C_m)
    changed = max(np.max(abs(n1 - n0)), np.max(abs(m1 - m0)))
    worst = max(err1.values())
    if changed > 1e-12 or worst > TOL:
        bad = True
        print(f"  VIOLATION: forces changed by {changed:.3e}; worst clause error {worst:.3e}")

if bad:
    print("\nFAIL: a returned tangent matrix is the live internal stiffness of the law")
    sys.exit(1)
print("\nOK")
sys.exit(0)
