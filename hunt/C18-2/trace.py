import sys, json, warnings, hashlib, numpy as np, os, copy
sys.path.insert(0,'/verif')
from vlib import env, gen
env.import_cardillo()
import vlib.props.c18 as m
from vlib.oracles import dense
import cardillo.solver as sv
from cardillo.solver import SolverOptions
rep=json.load(open('/tmp/c18replay.json'))
spec=rep['spec']; index=rep['case']; seed=0
h = int.from_bytes(hashlib.sha256(f"C18/{index}".encode()).digest()[:8], "little")
rng = np.random.default_rng([int(seed) & 0xFFFFFFFF, h & 0xFFFFFFFF, h >> 32])
solver, dt = spec["solver"], spec["dt"]
nsteps = int(rng.integers(30, 151)) if dt < 2e-2 else int(rng.integers(30, 80))
with gen.quiet(), warnings.catch_warnings():
    warnings.simplefilter("ignore")
    S, info = m._scene(rng, spec)
    S.assemble(options=SolverOptions(fixed_point_atol=1e-10))
    FP=m.FP
    opts = SolverOptions(fixed_point_atol=FP, fixed_point_rtol=FP, newton_atol=1e-10, newton_rtol=1e-10, fixed_point_max_iter=20000, newton_max_iter=50)
    S_eval=copy.deepcopy(S)
    sol = getattr(sv, solver)(S, nsteps*dt, dt, options=opts).solve()
print(info, nsteps)
t,q,u=np.asarray(sol.t),np.asarray(sol.q),np.asarray(sol.u); PN=np.asarray(sol.P_N)
cons=[c for c in S_eval.contributions if hasattr(c,'nla_N')]
print([c.name for c in cons])
bod=[c for c in S_eval.contributions if hasattr(c,'nu') and getattr(c,'nu',0)]
for k in range(24,36):
    M=dense(S_eval.M(t[k],q[k])); E=0.5*u[k]@M@u[k]
    gN=S_eval.g_N(t[k],q[k]); gd=S_eval.g_N_dot(t[k],q[k],u[k])
    Eb=[0.5*u[k][b.uDOF]@dense(b.M(t[k],q[k][b.qDOF]))@u[k][b.uDOF] if hasattr(b,'M') else None for b in bod]
    print(k, f"E={E:.9f}", "gN",np.round(gN,5),"gNdot",np.round(gd,4),"P_N",np.round(PN[k],5), "Ebodies",np.round(Eb,6))
    S_eval.step_callback(t[k],q[k].copy(),u[k].copy())
print("----")
S2=copy.deepcopy(S)
k=30
gp=S_eval.g_N_dot(t[k],q[k],u[k]); gm_new=S_eval.g_N_dot(t[k],q[k],u[k-1]); gm_old=S_eval.g_N_dot(t[k-1],q[k-1],u[k-1])
print("gamma+",gp[3],"gamma-_new",gm_new[3],"gamma-_old",gm_old[3],"P",PN[k][3])
print("pred dE", 0.5*PN[k][3]*(gp[3]+gm_new[3]))
W=dense(S_eval.W_N(t[k],q[k])); M=dense(S_eval.M(t[k],q[k]))
du=u[k]-u[k-1]; print("du - Minv W P", np.abs(du-np.linalg.solve(M,W@PN[k])).max())
