"""C18 finding 2: RATTLE - an oblique, frictionless, perfectly elastic (e_N = 1)
impact between two free spheres (no forces at all) INCREASES the kinetic
energy, by O(dt) (3.6 % for dt = 0.1, 0.35 % for dt = 0.01).

run:  cd /tmp/seed4/C18 && PYTHONPATH=/tmp/seed4/C18 /venv/bin/python /tmp/seed5/out/C18/2/demo.py
exit code 0 <=> the kinetic energy never increases (beyond 1e-9 relative)
"""
import os, sys, io, contextlib, warnings

os.environ["TQDM_DISABLE"] = "1"
import numpy as np
import cardillo
from cardillo import System
from cardillo.discrete import PointMass
from cardillo.contacts import Sphere2Sphere
from cardillo.solver import Rattle, Moreau

print("cardillo.__file__ =", cardillo.__file__)

R = 0.5  # radius of both spheres
v = 1.0  # approach speed
gap = 0.3
m1 = m2 = 1.0


def simulate(Solver, dt, b, e=1.0):
    """sphere 1 at rest in the origin, sphere 2 comes along -x with lateral offset b"""
    x0 = np.sqrt((2 * R) ** 2 - b**2) + gap
    p1 = PointMass(m1, q0=np.zeros(3), u0=np.zeros(3), name="p1")
    p2 = PointMass(m2, q0=np.array([x0, b, 0.0]), u0=np.array([-v, 0.0, 0.0]), name="p2")
    c = Sphere2Sphere(p1, p2, R, R, 0.0, e_N=e, name="contact")
    system = System()
    system.add(p1, p2, c)
    with contextlib.redirect_stdout(io.StringIO()):
        system.assemble()
    t1 = 2 * gap / v + 5 * dt
    with warnings.catch_warnings():
        warnings.simplefilter("ignore")
        with contextlib.redirect_stdout(io.StringIO()):
            sol = Solver(system, t1, dt).solve()
    Mdiag = np.array([m1] * 3 + [m2] * 3)
    T = 0.5 * np.sum(Mdiag * sol.u**2, axis=1)
    g = np.array([system.g_N(t, q)[0] for t, q in zip(sol.t, sol.q)])
    return T, g, sol


bad = False
print("\n solver   dt     b     T(0)      T(end)     rel. change   min g_N     sum P_N")
for Solver in (Rattle, Moreau):
    for dt in ((1e-3, 1e-2, 1e-1) if Solver is Rattle else (1e-2, 1e-1)):
        for b in (0.0, 0.5, 0.9):
            T, g, sol = simulate(Solver, dt, b)
            rel = (T.max() - T[0]) / T[0]
            print(
                f" {Solver.__name__:7s} {dt:6.0e} {b:4.2f}  {T[0]:.6f}  {T[-1]:.6f}  {(T[-1]-T[0])/T[0]:+.3e}"
                f"   {g.min():+.1e}  {sol.P_N.sum():.4f}"
            )
            if Solver is Rattle and rel > 1e-9:
                bad = True

# one impact in detail
dt, b = 1e-1, 0.9
T, g, sol = simulate(Rattle, dt, b)
i = int(np.argmax(np.diff(T)))
print(f"\nRattle, dt={dt}, b={b}: step {i}->{i+1}: T {T[i]:.6f} -> {T[i+1]:.6f}, P_N = {sol.P_N[i+1]}")
r0 = sol.q[i][3:] - sol.q[i][:3]
r1 = sol.q[i + 1][3:] - sol.q[i + 1][:3]
n0, n1 = r0 / np.linalg.norm(r0), r1 / np.linalg.norm(r1)
vrel0 = sol.u[i][3:] - sol.u[i][:3]
vrel1 = sol.u[i + 1][3:] - sol.u[i + 1][:3]
print("  contact normal at q_n   :", n0)
print("  contact normal at q_n+1 :", n1, f"(rotated by {np.degrees(np.arccos(n0 @ n1)):.2f} deg)")
print(f"  n(q_n)  . v_rel(u_n)   = {n0 @ vrel0:+.6f}   <- used as pre-impact gap rate")
print(f"  n(q_n+1). v_rel(u_n)   = {n1 @ vrel0:+.6f}   <- pre-impact velocity along the direction of the percussion")
print(f"  n(q_n+1). v_rel(u_n+1) = {n1 @ vrel1:+.6f}   <- post-impact gap rate (= -e * first line)")

if bad:
    print("\nFAIL: RATTLE increased the kinetic energy in a frictionless impact with e_N = 1 and no forces")
    sys.exit(1)
print("\nOK")
sys.exit(0)
