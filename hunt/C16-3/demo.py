"""C16 finding 3: friction elements with a constant force reservoir (friction law
without normal-force dependence, `friction_laws = [([], i_F, reservoir)]`, the
interface used by examples/friction_belt and supported by compute_I_F, Moreau,
BackwardEuler, Rattle) get NO friction force from consistent_initial_conditions
unless some unrelated unilateral contact happens to be closed.

Block (m = 1) on a belt moving with u_b = 3, spring k = 1, Coulomb friction with
constant reservoir R = mu * F_N = 5:   m u_dot = -k q + la_F,
   slip  (gamma_F = u - u_b != 0):  la_F = -R sign(gamma_F)
   stick (gamma_F = 0):             |la_F| <= R and gamma_F_dot = u_dot = 0

Run:  cd /tmp/seed4/C16 && PYTHONPATH=/tmp/seed4/C16 /venv/bin/python demo.py
"""
import contextlib
import io
import sys

import numpy as np

import cardillo
from cardillo import System
from cardillo.contacts import Sphere2Plane
from cardillo.discrete import PointMass
from cardillo.forces import Force
from cardillo.math.prox import Sphere

print("cardillo.__file__ =", cardillo.__file__)


class BlockOnBelt:
    """stripped-down copy of examples/friction_belt/friction_belt.py"""

    def __init__(self, q0, u0, k=1.0, u_b=3.0, R=5.0):
        self.mass, self.k, self.u_b, self.R = 1.0, k, u_b, R
        self.constant_mass_matrix = True
        self.nq = self.nu = 1
        self.q0, self.u0 = np.array([q0], dtype=float), np.array([u0], dtype=float)
        self.friction_laws = [([], [0], Sphere(R))]  # constant force reservoir
        self.nla_F = 1
        self.e_F = np.zeros(1)
        self.name = "block_on_belt"

    def q_dot(self, t, q, u):
        return u

    def q_dot_u(self, t, q):
        return np.eye(1)

    def M(self, t, q):
        return np.diag([self.mass])

    def h(self, t, q, u):
        return np.array([-self.k * q[0]])

    def gamma_F(self, t, q, u):
        return np.array([u[0] - self.u_b])

    def gamma_F_dot(self, t, q, u, u_dot):
        return np.array([u_dot[0]])

    def W_F(self, t, q):
        return np.ones((1, 1))


def run(q0, u0, with_unrelated_closed_contact):
    system = System()
    block = BlockOnBelt(q0, u0)
    system.add(block)
    if with_unrelated_closed_contact:
        pm = PointMass(1.0, q0=np.zeros(3), name="unrelated_ball")
        system.add(pm, Force(np.array([0, 0, -10.0]), pm, name="w"))
        system.add(Sphere2Plane(system.origin, pm, mu=0.0, name="unrelated_contact"))
    with contextlib.redirect_stdout(io.StringIO()):
        system.assemble()
    return system, block


bad = 0
for q0, u0, label in [(0.2, 0.2, "slip, gamma_F = -2.8"), (0.2, 5.0, "slip, gamma_F = +2.0"), (0.2, 3.0, "stick, gamma_F = 0")]:
    gamma = u0 - 3.0
    if gamma != 0:
        la_F_exact = -5.0 * np.sign(gamma)
    else:
        la_F_exact = 1.0 * q0  # holds the spring force, |0.2| < 5
    u_dot_exact = -1.0 * q0 + la_F_exact
    for extra in (False, True):
        system, block = run(q0, u0, extra)
        la_F = system.la_F0[block.la_FDOF][0]
        u_dot = system.u_dot0[block.uDOF][0]
        ok = abs(la_F - la_F_exact) < 1e-5 and abs(u_dot - u_dot_exact) < 1e-5
        print(
            f"{label:22s} unrelated closed contact in system: {str(extra):5s}  "
            f"la_F0 = {la_F:+.6f} (exact {la_F_exact:+.6f})  u_dot0 = {u_dot:+.6f} (exact {u_dot_exact:+.6f})"
            f"  -> {'ok' if ok else 'VIOLATION'}"
        )
        bad += not ok

if bad:
    print(f"\n{bad} cases violate the equations of motion with friction / Coulomb's law")
    sys.exit(1)
print("friction with constant force reservoir is part of the initial accelerations")
