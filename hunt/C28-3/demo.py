"""C28 finding 3: a floating-joint configuration given as 7 integers
(position + quaternion, e.g. the identity quaternion [.., 1, 0, 0, 0]) makes
system_from_urdf crash with a numpy casting error, although the same request
written with floats, or the integer 6-vector (position + rpy) form, imports fine.

joint_kinematics does `cfg = np.asanyarray(configuration[name])` without a dtype
and passes cfg[3:] to Exp_SO3_quat, which normalises in place
(`matrix /= P @ P`) - impossible for an int64 array.  The revolute / prismatic /
planar branches convert to float explicitly.

Run:  cd /tmp/seed4/C28 && PYTHONPATH=/tmp/seed4/C28 /venv/bin/python /tmp/seed5/out/C28/3/demo.py
"""
import contextlib, io, os, sys, tempfile
import numpy as np
import cardillo
from cardillo.urdf import system_from_urdf

print("cardillo:", cardillo.__file__)

URDF = """<?xml version="1.0"?>
<robot name="floating_int_demo">
  <link name="base"/>
  <link name="body">
    <inertial><origin xyz="0 0 0" rpy="0 0 0"/><mass value="1.0"/>
      <inertia ixx="0.1" ixy="0" ixz="0" iyy="0.2" iyz="0" izz="0.3"/></inertial>
  </link>
  <joint name="F" type="floating">
    <parent link="base"/><child link="body"/>
    <origin xyz="0 0 0" rpy="0 0 0"/>
  </joint>
</robot>
"""


def load(cfg):
    with tempfile.NamedTemporaryFile("w", suffix=".urdf", delete=False) as f:
        f.write(URDF)
        fn = f.name
    try:
        with contextlib.redirect_stdout(io.StringIO()):
            return system_from_urdf(fn, configuration={"F": cfg})
    finally:
        os.unlink(fn)


def pose(system):
    b = system.contributions_map["body"]
    q = system.q0[b.qDOF]
    return b.r_OP(system.t0, q), b.A_IB(system.t0, q)


# reference: the same configuration with floats
cases = [
    ("identity quaternion, ints", [0, 0, 1, 1, 0, 0, 0], [0.0, 0.0, 1.0, 1.0, 0.0, 0.0, 0.0]),
    ("half turn about z, ints", [1, 2, 3, 0, 0, 0, 1], [1.0, 2.0, 3.0, 0.0, 0.0, 0.0, 1.0]),
    ("non-unit quaternion (1,1,0,0), ints", (2, 0, 0, 1, 1, 0, 0), (2.0, 0.0, 0.0, 1.0, 1.0, 0.0, 0.0)),
    ("control: rpy form, ints", [0, 0, 1, 0, 0, 0], [0.0, 0.0, 1.0, 0.0, 0.0, 0.0]),
]
failures = 0
for label, cfg_int, cfg_float in cases:
    r_ref, A_ref = pose(load(cfg_float))
    print(f"\n{label}: configuration = {cfg_int}")
    print("   float reference: r_OC =", r_ref, " A_IB row 0 =", A_ref[0])
    try:
        r, A = pose(load(cfg_int))
    except Exception as e:
        failures += 1
        print("   VIOLATION: import raised %s: %s" % (type(e).__name__, e))
        continue
    err = max(np.linalg.norm(r - r_ref), np.linalg.norm(A - A_ref))
    print("   int input: r_OC =", r, " difference to float import = %.2e" % err)
    if err > 1e-12:
        failures += 1
        print("   VIOLATION: different pose")

print()
if failures:
    print(f"FAIL: {failures} of {len(cases)} integer-valued floating configurations could not be imported")
    sys.exit(1)
print("PASS")
sys.exit(0)
