"""C17 finding 2: ScipyDAE(method="BDF") does not keep the orientation
quaternions at unit length - the normalisation done in the step event never
reaches the BDF integrator state, the quaternion norm drifts linearly in time.

System: heavy top (rigid body on a Spherical joint, gravity), default
tolerances rtol=1e-3, atol=1e-6.  Control experiment: same call with the default
method "Radau", where the in-place normalisation is effective.

Run as:  cd /tmp/seed4/C17 && PYTHONPATH=/tmp/seed4/C17 /venv/bin/python demo.py
"""
import sys, io, contextlib, warnings
import numpy as np

import cardillo
from cardillo import System
from cardillo.discrete import RigidBody
from cardillo.constraints import Spherical
from cardillo.forces import Force
from cardillo.math import cross3
from cardillo.solver import ScipyDAE

print("cardillo imported from", cardillo.__file__)
warnings.filterwarnings("ignore")

T, rtol, atol = 30.0, 1e-3, 1e-6


def run(method):
    system = System()
    r = np.array([0.3, 0.0, -0.4])
    omega = np.array([6.0, 0.3, 15.0])
    rb = RigidBody(
        1.0,
        np.diag([1.0, 2.0, 0.5]),
        q0=np.concatenate([r, [1.0, 0.0, 0.0, 0.0]]),
        u0=np.concatenate([cross3(omega, r), omega]),
    )
    system.add(rb, Spherical(system.origin, rb, r_OJ0=np.zeros(3)), Force(np.array([0, 0, -9.81]), rb))
    with contextlib.redirect_stdout(io.StringIO()), contextlib.redirect_stderr(io.StringIO()):
        system.assemble()
        sol = ScipyDAE(system, T, T / 300, method=method, rtol=rtol, atol=atol).solve()
    dev = np.linalg.norm(sol.q[:, 3:], axis=1) - 1.0
    g = np.array([np.abs(system.g(ti, qi)).max() for ti, qi in zip(sol.t, sol.q)])
    return sol.t, dev, g


results = {}
for method in ("Radau", "BDF"):
    t, dev, g = run(method)
    n = len(t)
    print(f"\nScipyDAE(method='{method}', rtol={rtol}, atol={atol}), {n} stored steps up to t={t[-1]:.1f}")
    for a, b in [(0, n // 3), (n // 3, 2 * n // 3), (2 * n // 3, n)]:
        print(f"   t in [{t[a]:5.1f},{t[b-1]:5.1f}]:  |p|-1 in [{dev[a:b].min(): .2e}, {dev[a:b].max(): .2e}]   max|g| = {g[a:b].max():.1e}")
    slope = np.polyfit(t, dev, 1)[0]
    print(f"   least-squares drift rate d(|p|-1)/dt = {slope:.2e} 1/s, final |p|-1 = {dev[-1]:.2e}")
    results[method] = (np.abs(dev).max(), abs(dev[-1]), slope)

bad = False
for method, (mx, last, slope) in results.items():
    # a solver that normalises keeps |p| = 1 up to the local error of one step
    # (order of the tolerances) and without drift
    if mx > rtol or abs(slope) * T > 10 * atol + 0.1 * rtol:
        print(f"\nFAIL ({method}): stored quaternions leave unit length by {mx:.2e} (> rtol={rtol}) and drift at {slope:.2e}/s")
        bad = True
sys.exit(1 if bad else 0)
