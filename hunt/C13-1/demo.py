"""C13 finding 1: LagrangeBasis.deriv(xi, n) scales every derivative order by
1/h instead of 1/h**n (h = element length).  Mesh1D(derivative_order=2).N_xixi,
Mesh1D.eval_basis(...)[2] and lagrange_basis1D(..., derivative=2) are therefore
wrong by the factor h on every mesh whose elements do not have length 1.

Run:  cd /tmp/seed4/C13 && PYTHONPATH=/tmp/seed4/C13 /venv/bin/python /tmp/seed5/out/C13/1/demo.py
Exit code 0 iff all derivative orders agree with an exact rational reference.
"""
import sys
import warnings
from fractions import Fraction as Fr

import numpy as np

import cardillo
from cardillo.rods.discretization.lagrange import (
    LagrangeKnotVector,
    LagrangeBasis,
    lagrange_basis1D,
)
from cardillo.rods.discretization.mesh1D import Mesh1D

warnings.simplefilter("ignore")
print("cardillo.__file__ =", cardillo.__file__)


# ---------------------------------------------------------------- oracle
def polymul(a, b):
    c = [Fr(0)] * (len(a) + len(b) - 1)
    for i, ai in enumerate(a):
        for j, bj in enumerate(b):
            c[i + j] += ai * bj
    return c


def polyder(c, n):
    for _ in range(n):
        c = [k * c[k] for k in range(1, len(c))] or [Fr(0)]
    return c


def polyval(c, x):
    r = Fr(0)
    for ck in reversed(c):
        r = r * x + ck
    return r


def reference(p, a, b, xi, n):
    """exact d^n/dxi^n of the p+1 Lagrange polynomials with equidistant nodes
    on [a, b], evaluated at xi (all floats taken as exact rationals)."""
    a, b, xi = Fr(float(a)), Fr(float(b)), Fr(float(xi))
    h = b - a
    s = (xi - a) / h
    nus = [Fr(k, p) for k in range(p + 1)]
    out = []
    for j in range(p + 1):
        c = [Fr(1)]
        for k in range(p + 1):
            if k != j:
                c = polymul(c, [-nus[k] / (nus[j] - nus[k]), 1 / (nus[j] - nus[k])])
        out.append(float(polyval(polyder(c, n), s) / h**n))
    return np.array(out)


# ---------------------------------------------------------------- checks
rng = np.random.default_rng(0)
nfail = {0: 0, 1: 0, 2: 0}
ncheck = {0: 0, 1: 0, 2: 0}
worst = {0: 0.0, 1: 0.0, 2: 0.0}
examples = []

for p in range(1, 6):
    for nel in range(1, 13):
        for kind in ("uniform", "non-uniform"):
            if kind == "uniform":
                kv = LagrangeKnotVector(p, nel)
            else:
                corners = np.sort(np.concatenate([[0.0, 1.0], rng.random(nel - 1)]))
                kv = LagrangeKnotVector(p, nel, data=corners)
            mesh = Mesh1D(kv, p + 1, dim_q=3, derivative_order=2)

            # (i) values tabulated at the quadrature points: N, N_xi, N_xixi
            for el in range(nel):
                a, b = kv.element_interval(el)
                for i, xi in enumerate(mesh.qp[el]):
                    got = (mesh.N[el, i], mesh.N_xi[el, i], mesh.N_xixi[el, i])
                    for n in range(3):
                        ref = reference(p, a, b, xi, n)
                        scale = max(1.0, np.max(np.abs(ref)))
                        err = np.max(np.abs(got[n] - ref)) / scale
                        ncheck[n] += 1
                        worst[n] = max(worst[n], err)
                        if err > 1e-9:
                            nfail[n] += 1
                            if len(examples) < 6:
                                examples.append(
                                    (p, nel, kind, el, float(b - a), n, float(xi),
                                     got[n].copy(), ref)
                                )

            # (ii) eval_basis at arbitrary xi (with element lookup)
            for xi in rng.random(3):
                el = kv.element_number(xi)[0]
                a, b = kv.element_interval(el)
                NN = mesh.eval_basis(xi)
                for n in range(3):
                    ref = reference(p, a, b, xi, n)
                    scale = max(1.0, np.max(np.abs(ref)))
                    err = np.max(np.abs(NN[n] - ref)) / scale
                    ncheck[n] += 1
                    worst[n] = max(worst[n], err)
                    if err > 1e-9:
                        nfail[n] += 1

print()
for n in range(3):
    print(
        f"derivative order {n}: {nfail[n]:6d} of {ncheck[n]:6d} evaluations differ "
        f"from the exact reference (worst relative deviation {worst[n]:.3e})"
    )

print("\nfirst offending evaluations (order 2):")
for p, nel, kind, el, h, n, xi, got, ref in examples:
    print(f"  degree={p} nel={nel} {kind} el={el} h={h:.6g} xi={xi:.6g}")
    print(f"     cardillo N_xixi = {got}")
    print(f"     exact           = {ref}")
    with np.errstate(divide="ignore", invalid="ignore"):
        print(f"     ratio cardillo/exact = {got / ref}   (h = {h:.6g})")

# (iii) the same through the two other public entry points
B = LagrangeBasis(3, interval=[2.0, 5.0])
x = 3.1
d2 = B.deriv(x, n=2)[0]
ref2 = reference(3, 2.0, 5.0, x, 2)
hfd = 1e-4
fd2 = ((B.deriv(x + hfd) - B.deriv(x - hfd)) / (2 * hfd))[0]  # FD of its own 1st derivative
print("\nLagrangeBasis(3, [2, 5]).deriv(3.1, n=2) =", d2)
print("central difference of its own deriv(n=1)  =", fd2)
print("exact second derivative                   =", ref2)
standalone_bad = np.max(np.abs(d2 - ref2)) > 1e-9 * max(1, np.max(np.abs(ref2)))

kv = LagrangeKnotVector(2, 4)
NN = lagrange_basis1D(2, 0.6, 2, kv)
ref2b = reference(2, 0.5, 0.75, 0.6, 2)
print("\nlagrange_basis1D(2, 0.6, derivative=2, uniform nel=4)[2] =", NN[2])
print("exact                                                    =", ref2b)
module_bad = np.max(np.abs(NN[2] - ref2b)) > 1e-9 * np.max(np.abs(ref2b))

ok = not (nfail[0] or nfail[1] or nfail[2] or standalone_bad or module_bad)
if ok:
    print("\nOK: all derivative orders of the Lagrange basis are correct")
    sys.exit(0)
print(
    "\nFAIL: values and first derivatives are right, but the second derivative "
    "of the Lagrange basis is off by the factor h (element length)."
)
sys.exit(1)
