"""Log_SO3: the arccos / sqrt(1 - ca*ca) scaling loses up to 7 digits.
Clause: 'for every rotation vector of norm below pi ... the logarithm returns that
rotation vector' and 'exponentiating the logarithm reproduces the matrix'.
Oracle: the rotation vector that generated A, and a cancellation-free logarithm
(psi = w * atan2(|w|, ca) / |w|, w = axial vector of the skew part) on the SAME A."""
import sys
import numpy as np
import cardillo
from cardillo.math.rotations import Exp_SO3, Log_SO3

print("cardillo.__file__ =", cardillo.__file__)
assert cardillo.__file__.startswith("/tmp/seed4/C02")
eps = np.finfo(float).eps


def log_ref(A):
    w = 0.5 * np.array([A[2, 1] - A[1, 2], A[0, 2] - A[2, 0], A[1, 0] - A[0, 1]])
    s = np.sqrt(w @ w)
    ca = 0.5 * (np.trace(A) - 1.0)
    return w if s == 0 else w * (np.arctan2(s, ca) / s)


cases = [
    ("small, hard-coded", np.array([-1.0606246676269155e-05, 0.00011882811618203163, -2.5856245485025365e-05])),
    ("small, axis x", np.array([1.0e-4, 0.0, 0.0])),
    ("small, 1e-5", 1.0e-5 * np.array([2.0, -1.0, 2.0]) / 3.0),
    ("near 3, hard-coded", np.array([-0.08145103853870518, 2.805724984803081, 1.0400185972659324])),
]
rng = np.random.default_rng(0)
for lo, hi, m in [(1.0e-6, 1.0e-2, 4000), (2.8, 3.0001, 4000), (1.0e-2, 2.8, 4000)]:
    for _ in range(m):
        n = rng.standard_normal(3)
        n /= np.linalg.norm(n)
        a = np.exp(rng.uniform(np.log(lo), np.log(hi)))
        cases.append((f"sweep [{lo:g},{hi:g}]", a * n))

# tolerance: 100 ulp relative to |psi| for the vector, 100 ulp absolute for the matrix
worst = {}
nbad = 0
for name, psi in cases:
    a = np.linalg.norm(psi)
    A = Exp_SO3(psi)
    p = Log_SO3(A)
    pr = log_ref(A)
    e_rel = np.linalg.norm(p - psi) / a
    e_ref = np.linalg.norm(pr - psi) / a
    e_mat = np.abs(Exp_SO3(p) - A).max()
    e_mat_ref = np.abs(Exp_SO3(pr) - A).max()
    bad = (e_rel > 100 * eps) or (e_mat > 100 * eps)
    nbad += bad
    key = name
    if key not in worst or e_rel > worst[key][1]:
        worst[key] = (a, e_rel, e_ref, e_mat, e_mat_ref)

print(f"{'case':24s} {'|psi|':>10} {'rel.err Log_SO3':>16} {'rel.err reference':>18} {'|Exp(Log A)-A|':>15} {'same, reference':>16}")
for k, (a, e1, e2, e3, e4) in worst.items():
    print(f"{k:24s} {a:10.3e} {e1:16.3e} {e2:18.3e} {e3:15.3e} {e4:16.3e}")
print(f"tolerance: 100 ulp = {100*eps:.2e};  violations: {nbad} of {len(cases)} inputs")
if nbad:
    print("FAIL: Log_SO3 does not return the rotation vector / reproduce the matrix to rounding accuracy")
    sys.exit(1)
print("OK")
