"""C16 finding 2: with the documented option slice_active_contacts=False an
OPEN contact receives a friction force (force reservoir mu * 1.0).

Two point masses (m = 1, weight 10) above/on the plane z = 0, mu = 0.3:
  pm1 rests on the plane (closed, persistent contact),
  pm2 flies 1 m ABOVE the plane with horizontal velocity 1 (open contact, g_N = 1).
The state is consistent. Whatever the option, an open contact transmits no
force: la_N0[1] = 0, la_F0[2:4] = 0 and pm2 is in free fall, u_dot0 = (0, 0, -10).

Run:  cd /tmp/seed4/C16 && PYTHONPATH=/tmp/seed4/C16 /venv/bin/python demo.py
"""
import contextlib
import io
import sys

import numpy as np

import cardillo
from cardillo import System
from cardillo.contacts import Sphere2Plane
from cardillo.discrete import PointMass
from cardillo.forces import Force

print("cardillo.__file__ =", cardillo.__file__)

mu = 0.3


def build():
    system = System()
    pm1 = PointMass(1.0, q0=np.array([0.0, 0.0, 0.0]), u0=np.zeros(3), name="pm1")
    pm2 = PointMass(1.0, q0=np.array([2.0, 0.0, 1.0]), u0=np.array([1.0, 0.0, 0.0]), name="pm2")
    system.add(pm1, pm2)
    system.add(Force(np.array([0.0, 0.0, -10.0]), pm1, name="weight1"))
    system.add(Force(np.array([0.0, 0.0, -10.0]), pm2, name="weight2"))
    system.add(Sphere2Plane(system.origin, pm1, mu=mu, name="contact1"))
    system.add(Sphere2Plane(system.origin, pm2, mu=mu, name="contact2"))
    return system


bad = 0
for slice_active_contacts in (True, False):
    system = build()
    with contextlib.redirect_stdout(io.StringIO()):
        system.assemble(slice_active_contacts=slice_active_contacts)
    g_N = system.g_N(system.t0, system.q0)
    print(f"slice_active_contacts={slice_active_contacts}:")
    print("   g_N      =", g_N)
    print("   la_N0    =", system.la_N0)
    print("   la_F0    =", system.la_F0)
    print("   u_dot0   =", system.u_dot0, " (expected [0 0 0 0 0 -10])")
    open_force = np.max(np.abs(system.la_F0[2:4])) + abs(system.la_N0[1])
    err_a = np.max(np.abs(system.u_dot0 - np.array([0, 0, 0, 0, 0, -10.0])))
    if open_force > 1e-10 or err_a > 1e-8:
        bad += 1
        print(
            f"   VIOLATION: open contact (g_N = {g_N[1]}) carries a force of {open_force}, "
            f"acceleration error {err_a}"
        )

if bad:
    sys.exit(1)
print("open contacts are force free")
