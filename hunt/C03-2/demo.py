"""C03 finding 2: closed-form coefficients that were NOT replaced by their Taylor series still
cancel catastrophically for small rotation vectors:
  (a) U(a, b) / T_SE3(h) - the SE(3) tangent map, i.e. the (left-trivialised) derivative of Exp_SE3 -
      is wrong by O(|r|) for |psi| <~ 1e-8 and by about eps*|r|/|psi|^2 above,
  (b) Exp_SO3_psi (and with it Exp_SE3_h) is wrong by about |psi| ~ 5e-9 around |psi| = 1e-8.

Run as
    cd /tmp/seed4/C03 && PYTHONPATH=/tmp/seed4/C03 /venv/bin/python /tmp/seed5/out/C03/2/demo.py

Oracle: the maps Exp_SO3 / Exp_SE3 are re-implemented in extended precision with the Taylor series
of sin(a)/a, (1-cos a)/a^2, (a-sin a)/a^3 (no cancellation) and differentiated with a 4th-order
central difference (step 1e-6, error ~1e-13).  T_SE3 is defined by
    Exp_SE3(h)^-1 * dExp_SE3(h)/dh_k = hat(T_SE3(h)[:, k]),   hat((v, w)) = [[skew(w), v], [0, 0]]
which the implementation satisfies to 1e-13 at moderate angles (first rows of the table).
"""
import sys
from math import factorial
import numpy as np
import cardillo
from cardillo.math.rotations import Exp_SO3, Exp_SO3_psi, Exp_SE3, Exp_SE3_h, T_SE3, T_SO3

print("cardillo loaded from", cardillo.__file__)
LD = np.longdouble
TOL_T_SE3 = 1.0e-6   # per unit |r|  (|r| = O(1) below)
TOL_EXP = 1.0e-9


def coeffs(a2):
    if a2 < LD(0.25):
        ser = lambda k0: sum(LD((-1) ** n) * a2**n / LD(factorial(2 * n + k0)) for n in range(14))
        return ser(1), ser(2), ser(3)
    a = np.sqrt(a2)
    al = np.sin(a) / a
    return al, (1 - np.cos(a)) / a2, (1 - al) / a2


def skew(p):
    return np.array([[0, -p[2], p[1]], [p[2], 0, -p[0]], [-p[1], p[0], 0]], dtype=LD)


def Exp_ref(psi):
    al, b2, c = coeffs(psi @ psi)
    S = skew(psi)
    return np.eye(3, dtype=LD) + al * S + b2 * (S @ S)


def ExpSE3_ref(h):
    r, psi = h[:3], h[3:]
    al, b2, c = coeffs(psi @ psi)
    S = skew(psi)
    T = np.eye(3, dtype=LD) - b2 * S + c * (S @ S)
    H = np.zeros((4, 4), dtype=LD)
    H[:3, :3] = Exp_ref(psi)
    H[:3, 3] = T.T @ r
    H[3, 3] = 1
    return H


def fd(f, x, h=LD(1e-6)):
    x = np.asarray(x, dtype=LD)
    f0 = f(x)
    out = np.zeros(f0.shape + (x.size,), dtype=LD)
    for k in range(x.size):
        e = np.zeros(x.size, dtype=LD)
        e[k] = h
        out[..., k] = (-f(x + 2 * e) + 8 * f(x + e) - 8 * f(x - e) + f(x - 2 * e)) / (12 * h)
    return out


def T_SE3_ref(h):
    H = ExpSE3_ref(np.asarray(h, dtype=LD))
    H_h = fd(ExpSE3_ref, h)
    Hinv = np.eye(4, dtype=LD)
    Hinv[:3, :3] = H[:3, :3].T
    Hinv[:3, 3] = -H[:3, :3].T @ H[:3, 3]
    T = np.zeros((6, 6), dtype=LD)
    for k in range(6):
        M = Hinv @ H_h[:, :, k]
        T[:3, k] = M[:3, 3]
        T[3:, k] = [M[2, 1], M[0, 2], M[1, 0]]
    return T


rng = np.random.default_rng(20260922)
bad_a = bad_b = 0

print("\n(a) T_SE3(h), h = (r, psi), |r| ~ 1")
print("   |psi|       max err T_SE3   err block T_SO3 (diag)   err block U(r, psi)   max err Exp_SE3 (map itself)")
for a in [1.0, 1e-1, 1e-2, 1e-3, 1e-4, 1e-5, 1e-6, 1e-7, 3e-8, 1e-8, 3e-9, 1e-9]:
    n = rng.normal(size=3)
    n /= np.linalg.norm(n)
    r = rng.normal(size=3)
    h = np.concatenate([r, a * n])
    ref = T_SE3_ref(h)
    got = T_SE3(h)
    err = np.abs(got - ref).astype(float)
    e_map = float(np.abs(Exp_SE3(h) - ExpSE3_ref(h.astype(LD))).max())
    flag = ""
    if not err.max() < TOL_T_SE3:
        bad_a += 1
        flag = "  <-- VIOLATION"
    print(f"  {a:8.1e}   {err.max():12.3e}   {max(err[:3,:3].max(), err[3:,3:].max()):16.3e}   "
          f"{err[:3,3:].max():20.3e}   {e_map:18.3e}{flag}")

print("\n(b) Exp_SO3_psi(psi) and Exp_SE3_h(h)")
print("   |psi|       max err Exp_SO3_psi   max err Exp_SE3_h   (max err Exp_SO3 itself)")
for a in [1.0, 1e-3, 1e-6, 1e-7, 5e-8, 3e-8, 2e-8, 1.5e-8, 1.2e-8, 1e-8, 8e-9, 5e-9, 2e-9, 1e-9]:
    worst1 = worst2 = worst0 = 0.0
    for _ in range(5):
        n = rng.normal(size=3)
        n /= np.linalg.norm(n)
        psi = a * n
        r = rng.normal(size=3)
        h = np.concatenate([r, psi])
        worst1 = max(worst1, float(np.abs(Exp_SO3_psi(psi) - fd(Exp_ref, psi)).max()))
        worst2 = max(worst2, float(np.abs(Exp_SE3_h(h) - fd(ExpSE3_ref, h)).max()))
        worst0 = max(worst0, float(np.abs(Exp_SO3(psi) - Exp_ref(psi.astype(LD))).max()))
    flag = ""
    if not (worst1 < TOL_EXP and worst2 < TOL_EXP):
        bad_b += 1
        flag = "  <-- VIOLATION"
    print(f"  {a:8.1e}   {worst1:16.3e}   {worst2:16.3e}   {worst0:16.3e}{flag}")

print("\n(b') extreme but nonzero norm: Exp_SO3_psi([1e-160, 1e-160, 0]) =")
with np.errstate(all="ignore"):
    X = Exp_SO3_psi(np.array([1e-160, 1e-160, 0.0]))
print("   finite:", bool(np.isfinite(X).all()), " number of nan/inf entries:", int((~np.isfinite(X)).sum()))

print(f"\ntolerances: T_SE3 {TOL_T_SE3:g}, Exp_SO3_psi/Exp_SE3_h {TOL_EXP:g}")
if bad_a or bad_b:
    print(f"FAIL: T_SE3 violated at {bad_a} magnitudes, Exp_SO3_psi/Exp_SE3_h at {bad_b} magnitudes")
    sys.exit(1)
print("OK")
sys.exit(0)
