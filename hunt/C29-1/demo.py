"""C29 finding 1: the rod VTK export writes the stress resultants B_n / B_m of the WRONG
degrees of freedom as soon as the rod's coordinates do not start at index 0 of the
global solution vectors (second rod in a system, rod added after a rigid body, ...).

Run:  cd /tmp/seed4/C29 && PYTHONPATH=/tmp/seed4/C29 /venv/bin/python /tmp/seed5/out/C29/1/demo.py
Exit code 0 <=> the exported B_n / B_m equal the rod's own stress evaluation at the frame.
"""
import sys, tempfile, warnings
import numpy as np

warnings.filterwarnings("ignore")
import cardillo

print("cardillo from:", cardillo.__file__)

import vtk
from vtk.util.numpy_support import vtk_to_numpy
from cardillo import System
from cardillo.constraints import RigidConnection
from cardillo.discrete import RigidBody
from cardillo.forces import Force
from cardillo.rods import RectangularCrossSection, Simo1986
from cardillo.rods.cosseratRod import make_CosseratRod
from cardillo.solver import Newton, SolverOptions
from cardillo.visualization import Export


def read_vtu(f):
    r = vtk.vtkXMLUnstructuredGridReader()
    r.SetFileName(str(f))
    r.Update()
    g = r.GetOutput()
    pd = g.GetPointData()
    return {
        pd.GetArrayName(i): vtk_to_numpy(pd.GetArray(i)).copy()
        for i in range(pd.GetNumberOfArrays())
    }


def bezier3(c, s):
    # cubic Bernstein evaluation with control values c[0..3]
    b = np.array([(1 - s) ** 3, 3 * s * (1 - s) ** 2, 3 * s**2 * (1 - s), s**3])
    return b @ c


def la_cDOF(rod):
    return getattr(rod, "la_cDOF", np.zeros(0, dtype=int))


def la_gDOF(rod):
    return getattr(rod, "la_gDOF", np.zeros(0, dtype=int))


L = 2 * np.pi
NEL = 2
F_TIP = np.array([0.02, -0.05, 0.03])
TOL = 1e-4  # stresses are O(0.05 .. 0.3); the projection uses an iterative lsqr solve (1e-6)


def make_rod(Rod, name, offset):
    cs = RectangularCrossSection(0.3, 0.2)
    mat = Simo1986(np.array([5.0, 1.0, 1.0]), np.array([0.5, 2.0, 2.0]))
    q0 = Rod.straight_configuration(NEL, L, r_OP0=offset)
    return Rod(cs, mat, NEL, Q=q0, q0=q0, name=name)


def scenario(label, mixed, with_rigid_body_first):
    """rod 'idle' carries NO load at all -> all its stress resultants are zero.
    rod 'loaded' (or a rigid body) sits in front of it in the global vectors."""
    Rod = make_CosseratRod(interpolation="Quaternion", mixed=mixed, polynomial_degree=2)
    system = System()
    contrs = []
    if with_rigid_body_first:
        rb = RigidBody(1.0, np.eye(3), q0=np.array([3.0, 1.0, 0.5, 1, 0, 0, 0.0]), name="rb")
        contrs += [rb, RigidConnection(system.origin, rb, name="clamp_rb")]
    loaded = make_rod(Rod, "loaded", np.array([0.0, 0.0, 0.0]))
    idle = make_rod(Rod, "idle", np.array([0.0, 2.0, 0.0]))
    contrs += [
        loaded,
        RigidConnection(system.origin, loaded, xi2=0, name="clamp_loaded"),
        Force(lambda t: t * F_TIP, loaded, 1.0, name="tip_force"),
        idle,
        RigidConnection(system.origin, idle, xi2=0, name="clamp_idle"),
    ]
    system.add(*contrs)
    system.assemble()
    sol = Newton(system, n_load_steps=3, options=SolverOptions(newton_atol=1e-10)).solve()
    assert len(sol.t) == 4, "static solve did not finish"

    tmp = tempfile.mkdtemp()
    e = Export(tmp, "vtk", True, 50, sol)
    bad = 0
    for rod in (loaded, idle):
        rod._export_dict["level"] = "volume"
        rod._export_dict["stresses"] = True
        e.export_contr(rod)
        ncells = rod._export_dict["ncells"]
        for k in range(len(e.solution.t)):
            sol_k_t, q, la_c, la_g = (e.solution.t[k], e.solution.q[k], e.solution.la_c[k], e.solution.la_g[k])
            data = read_vtu(e.path / f"{rod.name}_{k}.vtu")
            worst = 0.0
            worst_at = None
            for key, comp in (("B_n", 0), ("B_m", 1)):
                # file layout: ncells cells x 4 layers x 4 points per layer (identical values in a layer)
                ctrl = data[key].reshape(ncells, 4, 4, 3)[:, :, 0, :]
                # the export samples the stresses at xi_j = j / (4 ncells - 1), j = 0 .. 4 ncells - 1
                # (four samples per cell) and fits one cubic per cell through them, so at the
                # sample points the cubic reproduces the sampled value
                for cell in range(ncells):
                    for j in range(4 * cell, 4 * cell + 4):
                        xi = j / (4 * ncells - 1)
                        s = xi * ncells - cell
                        from_file = bezier3(ctrl[cell], s)
                        # reference: the rod's own stress evaluation with ITS coordinates
                        # (system convention: contributions get q[contr.qDOF], la_c[contr.la_cDOF], la_g[contr.la_gDOF])
                        ref = rod.eval_stresses(
                            sol_k_t, q[rod.qDOF], la_c[la_cDOF(rod)], la_g[la_gDOF(rod)], xi
                        )[comp]
                        err = np.max(np.abs(from_file - ref))
                        if err > worst:
                            worst, worst_at = err, (key, xi, from_file, ref)
            flag = "OK " if worst < TOL else "BAD"
            if worst >= TOL:
                bad += 1
            if k == len(e.solution.t) - 1 or worst >= 1e-5:
                print(
                    f"[{label}] rod '{rod.name}' (qDOF starts at {rod.qDOF[0]}, la_cDOF at "
                    f"{la_cDOF(rod)[0] if len(la_cDOF(rod)) else '-'}) frame {k} t={sol_k_t:.3f}: "
                    f"max |file - rod.eval_stresses| = {worst:.3e} {flag}"
                )
                if worst >= TOL:
                    key, xi, ff, ref = worst_at
                    print(f"      {key}(xi={xi:.3f}) in file = {ff},  evaluated from the solution = {ref}")
    # physical sanity of the reference itself: the idle rod is stress free, the loaded one carries F_TIP
    k = len(e.solution.t) - 1
    q, la_c, la_g = e.solution.q[k], e.solution.la_c[k], e.solution.la_g[k]
    n_idle = idle.eval_stresses(1.0, q[idle.qDOF], la_c[la_cDOF(idle)], la_g[la_gDOF(idle)], 0.3)[0]
    print(f"[{label}] reference check: idle rod |B_n(0.3)| = {np.linalg.norm(n_idle):.2e} (must be 0: the rod is unloaded)")
    return bad


nbad = 0
nbad += scenario("two mixed rods", mixed=True, with_rigid_body_first=False)
nbad += scenario("rigid body + two displacement-based rods", mixed=False, with_rigid_body_first=True)

if nbad:
    print(f"\nFAIL: {nbad} exported frames contain stress resultants that are not the ones of the exported rod.")
    sys.exit(1)
print("\nPASS: exported stress resultants agree with the solution.")
sys.exit(0)
