"""C18 finding 3: BackwardEuler (position-level contact) lets a light sphere fall
straight THROUGH a fixed plane: no normal percussion is ever generated and the
penetration grows without bound (13 radii after 30 steps), because the contact
fixed-point loop is declared converged on an absolute percussion tolerance.

A frictionless impact without applied forces does not depend on the mass, so
the same scene with the mass multiplied by 1e6 is the reference.

run:  cd /tmp/seed4/C18 && PYTHONPATH=/tmp/seed4/C18 /venv/bin/python /tmp/seed5/out/C18/3/demo.py
exit code 0 <=> no stored step penetrates by more than 1e-6 m and the light and the
               heavy sphere follow the same trajectory
"""
import os, sys, io, contextlib, warnings

os.environ["TQDM_DISABLE"] = "1"
import numpy as np
import cardillo
from cardillo import System
from cardillo.discrete import PointMass, Frame
from cardillo.contacts import Sphere2Plane
from cardillo.solver import BackwardEuler, Rattle, Moreau

print("cardillo.__file__ =", cardillo.__file__)

R = 1.5e-4  # radius 0.15 mm   (grain of fine sand)
m_grain = 3.7e-8  # kg  = 4/3 pi R^3 * 2600 kg/m^3
v0 = 1.0  # m/s towards the plane
h0 = 1.05e-3  # initial gap
dt = 1e-4
nsteps = 30


def simulate(Solver, m):
    p = PointMass(m, q0=np.array([0.0, 0.0, R + h0]), u0=np.array([0.0, 0.0, -v0]), name="grain")
    floor = Frame(name="floor")
    c = Sphere2Plane(floor, p, mu=0.0, r=R, e_N=0.0, name="contact")
    system = System()
    system.add(p, floor, c)
    with contextlib.redirect_stdout(io.StringIO()):
        system.assemble()
    with warnings.catch_warnings(record=True) as w:
        warnings.simplefilter("always")
        with contextlib.redirect_stdout(io.StringIO()):
            sol = Solver(system, nsteps * dt, dt).solve()  # default SolverOptions
    g = np.array([system.g_N(t, q)[0] for t, q in zip(sol.t, sol.q)])
    return g, sol, [str(x.message) for x in w if "converged" in str(x.message)]


bad = False
results = {}
for Solver in (BackwardEuler, Rattle, Moreau):
    for m in (m_grain * 1e6, m_grain):
        g, sol, msgs = simulate(Solver, m)
        results[(Solver.__name__, m)] = g
        print(
            f"{Solver.__name__:14s} m = {m:8.2e} kg: stored steps = {len(g):2d}, min g_N = {g.min():+.3e} m"
            f" ({g.min()/R:+6.1f} radii), final u_z = {sol.u[-1][2]:+.3f}, max P_N = {sol.P_N.max():.3e},"
            f" non-convergence warnings: {len(msgs)}"
        )
        if Solver is BackwardEuler:
            print("   g_N :", np.array2string(g[8:18], precision=2, max_line_width=200))
            print("   P_N :", np.array2string(sol.P_N[8:18, 0], precision=2, max_line_width=200))
        if Solver in (BackwardEuler, Rattle) and g.min() < -1e-6:  # position-level schemes
            bad = True

gl, gh = results[("BackwardEuler", m_grain)], results[("BackwardEuler", m_grain * 1e6)]
n = min(len(gl), len(gh))
dev = np.max(np.abs(gl[:n] - gh[:n]))
print(f"\nBackwardEuler: max |g_N(light) - g_N(heavy)| over the stored steps = {dev:.3e} m (mass must not matter)")
if dev > 1e-6 or len(gl) != len(gh):
    bad = True

if bad:
    print("\nFAIL: a position-level scheme let the contact penetrate far beyond any tolerance / P_N stayed 0")
    sys.exit(1)
print("\nOK")
sys.exit(0)
