"""C19 finding 1: RATTLE shows a linear (secular) energy drift for a spinning
asymmetric rigid body on a spherical joint under gravity (heavy top), with
Newton tolerances at round-off level.  The drift rate scales with dt**2, i.e.
it is a property of the discretisation, not of the nonlinear solver.

Run:  cd /tmp/seed4/C19 && PYTHONPATH=/tmp/seed4/C19 /venv/bin/python /tmp/seed5/out/C19/1/demo.py
"""
import sys, io, contextlib, time
import numpy as np
import cardillo
from cardillo import System
from cardillo.discrete import RigidBody
from cardillo.constraints import Spherical
from cardillo.forces import Force
from cardillo.solver import Rattle, SolverOptions

print("cardillo.__file__ =", cardillo.__file__)

m, grav = 1.0, 9.81
OPT = dict(newton_atol=1e-12, newton_rtol=1e-12, newton_max_iter=50,
           fixed_point_atol=1e-12, fixed_point_rtol=1e-12)


def quiet(f):
    buf = io.StringIO()
    with contextlib.redirect_stdout(buf), contextlib.redirect_stderr(buf):
        return f()


def run_top(Theta, c, omega0, dt, T):
    """rigid body, pivot (spherical joint) at the origin, centre of mass at the
    body-fixed position c, initial body angular velocity omega0, gravity -z"""
    system = System()
    p0 = np.array([1.0, 0.0, 0.0, 0.0])
    u0 = np.concatenate([np.cross(omega0, c), omega0])
    rb = RigidBody(m, Theta, q0=np.concatenate([c, p0]), u0=u0)
    system.add(rb, Spherical(system.origin, rb, r_OJ0=np.zeros(3)),
               Force(np.array([0.0, 0.0, -m * grav]), rb))
    quiet(system.assemble)
    sol = quiet(lambda: Rattle(system, T, dt, options=SolverOptions(**OPT)).solve())
    q, u = sol.q, sol.u
    E = (0.5 * m * np.einsum("ij,ij->i", u[:, :3], u[:, :3])
         + 0.5 * np.einsum("ij,jk,ik->i", u[:, 3:], Theta, u[:, 3:])
         + m * grav * q[:, 2])
    gmax = max(np.abs(system.g(0.0, qi)).max() for qi in q[:: max(1, len(q) // 50)])
    return E - E[0], E[0], gmax


def window_means(e, K=8):
    n = len(e)
    return np.array([e[i * n // K:(i + 1) * n // K].mean() for i in range(K)])


def report(label, e, E0, gmax, T):
    wm = window_means(e)
    n = len(e)
    amp = np.abs(e[: n // 4]).max()
    slope = np.polyfit(np.linspace(0.0, T, n), e, 1)[0]  # least-squares trend
    shift = slope * T
    print(f"{label}: E0 = {E0:.4f}, max|g| = {gmax:.1e}")
    print("   means of E-E0 over 8 consecutive windows:", " ".join(f"{x:+.4e}" for x in wm))
    print(f"   max|E-E0| first quarter {amp:.3e}, last quarter {np.abs(e[3*n//4:]).max():.3e};"
          f" fitted trend {slope:+.3e} per s = {shift:+.3e} over the run")
    return wm, amp, shift, slope


t_start = time.time()
T = 12.0
Theta_asym = np.diag([0.3, 0.2, 0.1])
c_asym = np.array([0.3, 0.2, 0.4])
Theta_sym = np.diag([0.2, 0.2, 0.1])          # Lagrange top (integrable): control
c_sym = np.array([0.0, 0.0, 0.4])
omega0 = np.array([20.0, 2.0, 1.0])

e_c, E0_c, g_c = run_top(Theta_sym, c_sym, omega0, 0.01, T)
wm_c, amp_c, shift_c, slope_c = report("control  (symmetric top,  dt=0.01)", e_c, E0_c, g_c, T)
e_1, E0_1, g_1 = run_top(Theta_asym, c_asym, omega0, 0.01, T)
wm_1, amp_1, shift_1, slope_1 = report("asymmetric top, dt=0.01        ", e_1, E0_1, g_1, T)
e_2, E0_2, g_2 = run_top(Theta_asym, c_asym, omega0, 0.005, T)
wm_2, amp_2, shift_2, slope_2 = report("asymmetric top, dt=0.005       ", e_2, E0_2, g_2, T)
print(f"ratio of the drift rates dt=0.01 / dt=0.005: {slope_1/slope_2:.2f}, of the amplitudes {amp_1/amp_2:.2f}"
      "  (4 = second-order effect)")
print(f"run time {time.time()-t_start:.0f} s")

# bounded, drift-free energy error <=> the fitted linear trend over the run is a small
# fraction of the oscillation amplitude of the error (control: it is)
def drift_free(wm, amp, shift):
    return abs(shift) < 0.1 * amp

ok_c = drift_free(wm_c, amp_c, shift_c)
ok_1 = drift_free(wm_1, amp_1, shift_1)
ok_2 = drift_free(wm_2, amp_2, shift_2)
print("drift-free: control", ok_c, "| asymmetric dt=0.01", ok_1, "| asymmetric dt=0.005", ok_2)
if not ok_c:
    print("UNEXPECTED: control shows a drift as well")
if ok_1 and ok_2:
    print("PASS: no secular energy growth")
    sys.exit(0)
print("FAIL: RATTLE energy error of the spinning asymmetric top grows linearly in time "
      f"({slope_1:+.2e}/s at dt=0.01, {slope_2:+.2e}/s at dt=0.005, E0={E0_1:.2f})")
sys.exit(1)
