"""C26 / finding 3 (minor)

Sphere2Sphere.assembler_callback() replaces reference_contact_basis but keeps
the memoised tangent vectors (t1t2_cache, t1t2_q1_q2_cache).  A re-assembly of
the contact (contact.assembler_callback() or System.assembler_callback())
therefore leaves stale entries: t1t2 / t1t2_q1_q2 / gamma_F / W_F at the cached
(t, q) still use the reference basis of the previous history, whereas the
non-memoised parts of the same class (t1t2_dot, the t2_ref factors of
t1t2_q1_q2) already use the new one.

System.assemble() hides this only because consistent_initial_conditions()
happens to call step_callback() (which clears the two caches) right after the
assembler callbacks.

Run:  cd /tmp/seed4/C26 && PYTHONPATH=/tmp/seed4/C26 /venv/bin/python /tmp/seed5/out/C26/3/demo.py
"""
import contextlib
import io
import sys

import numpy as np

import cardillo
from cardillo import System
from cardillo.discrete import RigidBody
from cardillo.contacts import Sphere2Sphere
from cardillo.math import cross3

print("cardillo.__file__ =", cardillo.__file__)

q1 = np.array([0, 0, 0, 1, 0, 0, 0.0])
q2 = np.array([1.0, 0.2, 0.1, 1, 0, 0, 0])
b1 = RigidBody(1.0, np.eye(3), q0=q1, name="b1")
b2 = RigidBody(1.0, np.eye(3), q0=q2, name="b2")
contact = Sphere2Sphere(b1, b2, 0.4, 0.4, mu=0.3, name="contact")
system = System()
system.add(b1, b2, contact)
with contextlib.redirect_stdout(io.StringIO()):
    system.assemble()

t0, q0 = system.t0, system.q0.copy()
u = np.array([0.3, -0.2, 0.1, 0.0, 0.4, 0.0, -0.1, 0.2, 0.5, 0.3, 0.0, 0.0])


def unmemoised_t1t2(t, q):
    """the documented construction, evaluated from the current state of the contact"""
    r = b2.r_OP(t, q[b2.qDOF]) - b1.r_OP(t, q[b1.qDOF])
    n = r / np.linalg.norm(r)
    t2_ref = contact.reference_contact_basis[:, 1]
    v = cross3(t2_ref, n)
    t1 = v / np.linalg.norm(v)
    w = cross3(n, t1)
    return t1, w / np.linalg.norm(w)


def deviation(label):
    t1, t2 = contact.t1t2(t0, q0[contact.qDOF])
    r1, r2 = unmemoised_t1t2(t0, q0)
    d = max(np.max(np.abs(t1 - r1)), np.max(np.abs(t2 - r2)))
    print(f"  {label:58s} max|t1t2 memoised - unmemoised| = {d:.3e}")
    return d


d_ctrl = deviation("after assemble (control)")

# two accepted steps move ball 2 around ball 1 -> the reference basis follows
qa = np.concatenate([q1, [0.1, 1.0, 0.3, 1, 0, 0, 0]])
qb = np.concatenate([q1, [0.1, 0.2, 1.0, 1, 0, 0, 0]])
system.step_callback(0.1, qa.copy(), u.copy())
system.step_callback(0.2, qb.copy(), u.copy())
d_steps = deviation("after two step callbacks (control)")  # fills the cache with key (t0, q0)
gF_before = system.gamma_F(t0, q0, u)

# re-assembly of the contributions
system.assembler_callback()
print("  reference basis after re-assembly:\n", contact.reference_contact_basis)
d_stale = deviation("after System.assembler_callback()")
gF_memo = system.gamma_F(t0, q0, u)
contact.t1t2_cache.clear()
contact.t1t2_q1_q2_cache.clear()
gF_fresh = system.gamma_F(t0, q0, u)
print("  gamma_F(t0, q0, u) memoised  :", gF_memo, "(identical to the value before re-assembly:", np.array_equal(gF_memo, gF_before), ")")
print("  gamma_F(t0, q0, u) caches off :", gF_fresh)

# for comparison: the full System.assemble() path
system.step_callback(0.1, qa.copy(), u.copy())
system.step_callback(0.2, qb.copy(), u.copy())
contact.t1t2(t0, q0[contact.qDOF])
with contextlib.redirect_stdout(io.StringIO()):
    system.assemble()
d_full = deviation("after System.assemble() (cleared by step_callback inside)")

if d_ctrl > 1e-12 or d_steps > 1e-12:
    print("harness problem: controls deviate")
    sys.exit(2)
if d_stale > 1e-12:
    print(f"FAIL: stale tangent vectors after re-assembly of the contact, deviation {d_stale:.3e}")
    sys.exit(1)
print("OK")
sys.exit(0)
