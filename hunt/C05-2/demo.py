"""C05 finding 2: joints attached to a rod cross-section at a NON-NODAL xi.

g_dot (and W_g, g_ddot) of every joint type are built from the rod's v_P / B_Omega / J_P,
which interpolate the NODAL velocities (Petrov-Galerkin), while g is built from r_OP / A_IB,
which interpolate the nodal positions / quaternions (SE3: relative twist, R12: rotation
matrices).  For xi that is not a node  d/dt A_IB(q(t), xi) != A_IB * skew(B_Omega)  and (SE3)
d/dt r_OP != v_P, so  g_dot != d/dt g  for a perfectly ordinary state.  For R12 the interpolated
A_IB is not orthogonal, and the joint is not even satisfied in the configuration in which it
was defined.

Oracle: Richardson-extrapolated central difference of g(t, q + e*q_dot(q,u)) (accuracy ~1e-11),
q_dot being the rod's own kinematic equation.  Control: the same joint at the node xi = 1.
"""
import sys, warnings
import numpy as np

warnings.filterwarnings("ignore")
import cardillo

print("cardillo:", cardillo.__file__)
from cardillo import System
from cardillo.discrete import Frame
from cardillo.constraints import RigidConnection, Revolute, Prismatic, FixedDistance, Spherical
from cardillo.math import A_IB_basic
from cardillo.rods import RectangularCrossSection, Simo1986
from cardillo.rods.cosseratRod import make_CosseratRod
from cardillo.solver import SolverOptions


def circ_rod(interp, nel):
    Rod = make_CosseratRod(interpolation=interp, mixed=True)
    cs = RectangularCrossSection(0.1, 0.1)
    mat = Simo1986(np.array([5, 1, 1.0]), np.array([0.5, 2, 2.0]))
    r = lambda xi: np.array([np.sin(xi * np.pi / 2), 1 - np.cos(xi * np.pi / 2), 0.0])
    A = lambda xi: A_IB_basic(xi * np.pi / 2).z
    q0 = Rod.pose_configuration(nel, r, A)  # quarter circle, unit nodal quaternions
    return Rod(cs, mat, nel, Q=q0, q0=q0, name="rod")


def ddt(f, eps=1e-4):
    d1 = (f(eps) - f(-eps)) / (2 * eps)
    d2 = (f(eps / 2) - f(-eps / 2)) / eps
    return (4 * d2 - d1) / 3


def case(interp, nel, xi, kind):
    frame = Frame(r_OP=np.array([0.1, 0.2, 0.3]), name="frame")
    rod = circ_rod(interp, nel)
    r_OJ0 = np.array([0.2, 0.5, 0.3])
    if kind == "RigidConnection":
        j = RigidConnection(frame, rod, r_OJ0=r_OJ0, A_IJ0=np.eye(3), xi2=xi)
    elif kind == "Revolute":
        j = Revolute(frame, rod, 2, r_OJ0=r_OJ0, A_IJ0=np.eye(3), xi2=xi)
    elif kind == "Prismatic":
        j = Prismatic(frame, rod, 0, r_OJ0=r_OJ0, A_IJ0=np.eye(3), xi2=xi)
    elif kind == "FixedDistance":
        j = FixedDistance(frame, rod, xi2=xi, B2_r_P2J2=np.array([0.0, 0.1, 0.05]))
    elif kind == "Spherical(centreline)":
        # joint point = centreline point of the cross-section (no body-fixed offset on the rod)
        j = Spherical(rod, frame, r_OJ0=None, xi1=xi)
    system = System()
    system.add(frame, rod, j)
    system.assemble(options=SolverOptions(compute_consistent_initial_conditions=False))

    l = rod.local_qDOF_P(xi)
    lu = rod.local_uDOF_P(xi)
    g0 = np.max(np.abs(np.atleast_1d(j.g(0.0, rod.q0[l]))))

    # smooth nodal velocity field (bending/torsion vibration superposed on a rigid motion)
    U = np.zeros(rod.nu)
    for n in range(rod.nnodes_p):
        s = n / (rod.nnodes_p - 1)
        U[rod.nodalDOF_p_u[n]] = np.array([0.3 * s, 0.0, 1.0 * s**2])
        U[rod.nodalDOF_r[n]] = np.array([0.0, 0.5 * s**2, 0.1 * s])
    Q = rod.q0.copy()
    Qd = rod.q_dot(0.0, Q, U)
    gd = np.atleast_1d(j.g_dot(0.0, Q[l], U[lu]))
    gd_ref = ddt(lambda e: np.atleast_1d(j.g(0.0, (Q + e * Qd)[l])))
    return g0, np.max(np.abs(gd - gd_ref)), np.max(np.abs(gd_ref))


fail = False
print(f"{'rod':11s} {'nel':>3s} {'xi':>5s} {'joint':22s} |g(t0,q0)|   max|g_dot - d/dt g|   max|d/dt g|")
for interp in ["Quaternion", "SE3", "R12"]:
    for nel in [2, 8]:
        for xi in [1.0, 0.3]:
            for kind in ["RigidConnection", "Revolute", "Prismatic", "FixedDistance", "Spherical(centreline)"]:
                g0, err, ref = case(interp, nel, xi, kind)
                bad = err > 1e-7 or g0 > 1e-10
                if xi == 1.0:
                    assert not bad, "control (nodal xi) must be consistent"
                    if kind != "RigidConnection":
                        continue
                if bad:
                    fail = True
                print(f"{interp:11s} {nel:3d} {xi:5.2f} {kind:22s} {g0:.2e}     {err:.3e}             {ref:.3e}" + ("   <-- VIOLATION" if bad else ""))

if fail:
    print("\nFAIL: for rod cross-sections at non-nodal xi the velocity-level joint constraint is not the "
          "time derivative of the position-level constraint (and for R12 the joint is violated in its "
          "defining configuration).")
    sys.exit(1)
print("OK")
