"""C23 finding 1: Riks doubles back on its own track and ends the run silently.

Clamped cantilever (displacement-based quaternion rod, 4 elements), proportional
tip force + tip follower moment, la_arc_span = [0, 1] (default), default SolverOptions,
default la_arc0; only iter_goal=5 is non-default.

Run as:  cd /tmp/seed4/C23 && PYTHONPATH=/tmp/seed4/C23 /venv/bin/python demo.py
"""
import sys, io, contextlib, warnings
import numpy as np
import cardillo
from cardillo import System
from cardillo.solver import Riks, Newton, SolverOptions
from cardillo.rods import RectangularCrossSection, Harsch2021
from cardillo.rods.cosseratRod import make_CosseratRod
from cardillo.constraints import RigidConnection
from cardillo.forces import Force, B_Moment

print("cardillo.__file__ =", cardillo.__file__)

f = np.array([-0.05121307, -0.06200139, 0.19381815])
m = np.array([-0.66147342, -0.72183518, -0.98841984])
L = 2 * np.pi


def build():
    Rod = make_CosseratRod(interpolation="Quaternion", mixed=False)
    mat = Harsch2021(np.array([5.0, 1.0, 1.0]), np.array([0.5, 2.0, 2.0]))
    cs = RectangularCrossSection(L / 100, L / 100)
    q0 = Rod.straight_configuration(4, L)
    rod = Rod(cs, mat, 4, Q=q0, q0=q0)
    system = System()
    system.add(rod, RigidConnection(system.origin, rod, xi2=(0,)))
    system.add(Force(lambda t: t * f, rod, (1,)))
    system.add(B_Moment(lambda t: t * m, rod, (1,)))
    system.assemble(options=SolverOptions(compute_consistent_initial_conditions=False))
    return system, rod


def run(fct):
    """run quietly, collect warnings and exceptions"""
    buf = io.StringIO()
    with warnings.catch_warnings(record=True) as wl:
        warnings.simplefilter("always")
        with contextlib.redirect_stdout(buf), contextlib.redirect_stderr(buf):
            try:
                res, exc = fct(), None
            except BaseException as e:  # an exception is a way of "saying so"
                res, exc = None, e
    return res, exc, [str(w.message) for w in wl]


# --- the arc-length run -------------------------------------------------------
system, rod = build()
span = [0.0, 1.0]
sol, exc, wmsgs = run(lambda: Riks(system, iter_goal=5, la_arc_span=span).solve())
if exc is not None:
    print("Riks raised:", repr(exc), "-> the run says that it stopped early. OK")
    sys.exit(0)

la = np.asarray(sol.t)
np.set_printoptions(precision=4, linewidth=150, suppress=True)
print("returned la_arc values:\n", la)
said_so = [w for w in wmsgs if "tqdm" not in w and "clamping frac" not in w]
print("warnings issued by the run (progress-bar noise removed):", said_so)

# every returned point is an equilibrium of its own load factor (sanity)
u0 = np.zeros(system.nu)
res = max(
    np.max(np.abs(system.h(t, q, u0) + system.W_g(t, q, format="csr") @ lg))
    for t, q, lg in zip(sol.t, sol.q, sol.la_g)
)
print(f"max equilibrium residual over the returned points: {res:.2e}")

# direction reversals of the path in configuration space
dq = np.diff(sol.q, axis=0)
cosang = np.array(
    [dq[k] @ dq[k + 1] / np.linalg.norm(dq[k]) / np.linalg.norm(dq[k + 1]) for k in range(len(dq) - 1)]
)
rev = np.where(cosang < 0)[0]
for k in rev:
    print(
        f"step {k+1}->{k+2}: la_arc {la[k+1]:.4f} -> {la[k+2]:.4f}, cos(angle between consecutive increments) = {cosang[k]:+.4f}"
    )

# does the way back coincide with the way out?  (interpolate the outward tip path in la_arc)
tip = np.array([rod.r_OP(0, q[rod.qDOF][rod.local_qDOF_P((1,))], (1,)) for q in sol.q])
retraced = None
if len(rev):
    k0 = rev[0] + 1  # index of the turning point
    out_la, out_tip = la[: k0 + 1], tip[: k0 + 1]
    back = [i for i in range(k0 + 1, len(la)) if out_la.min() < la[i] < out_la.max()]
    if back:
        d = max(
            np.linalg.norm([np.interp(la[i], out_la, out_tip[:, c]) for c in range(3)] - tip[i])
            for i in back
        )
        print(f"max distance of the returning tip positions from the (linearly interpolated) outward tip path: {d:.3e} (rod length {L:.3f})")
        retraced = d < 0.05 * L

# independent oracle: the equilibrium path does continue monotonically up to la_arc = 1
system2, rod2 = build()
soln, excn, wn = run(lambda: Newton(system2, n_load_steps=40, verbose=False).solve())
newton_ok = excn is None and len(soln.t) == 41
print("Newton load stepping (40 steps) reaches t = 1:", newton_ok)

reached_end = la.max() >= span[1]
print(f"largest la_arc reached: {la.max():.4f}, last la_arc: {la[-1]:.4f}, end of span: {span[1]}")

if not reached_end and not said_so:
    print(
        "FAIL: the arc-length run ended at la_arc = %.4f without reaching la_arc_span[1] = %g, "
        "returned normally and issued no warning (turned back at la_arc = %.4f, retraced its own path: %s; "
        "equilibria up to la_arc = 1 exist: %s)"
        % (la[-1], span[1], la.max(), retraced, newton_ok)
    )
    sys.exit(1)
print("OK")
sys.exit(0)
